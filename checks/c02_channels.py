"""C02 - channels deliver each item exactly once, in order, to the right channel.

Generated programs: 1-3 channels on one gateway (popen / bare / socket / proxied), 1-2 sender tasks and
1-2 receiver tasks (receive, iteration, timed receive with retries, callback) per side and direction,
items of all types and sizes, small pipe/socket buffers so writers block mid-frame, stalls so that
timeouts fire with items in flight.  Oracle: delivered sequence (queue pop order / callback order)
versus the ground-truth wire order decoded by an independent frame parser.
"""

from __future__ import annotations

from vsim import gwsim, wire

from . import chanlib as L
from .chanlib import v

PROP = "C02"
LEVEL = "exploration"
BUDGET = {
    "quick": {"budget_s": 45, "chunk": 60, "shrink_s": 40},
    "thorough": {"budget_s": 900, "chunk": 200, "shrink_s": 120},
}
RULE = (
    "cases: generated channel programs (1-3 channels, 1-2 sender and 1-2 receiver tasks per side and direction, "
    "receive/iterate/timed-receive/callback receivers, 0-6 items per stream with fillers of every supported type, "
    "some larger than the pipe) on popen/bare/socket/proxied gateways with pipe capacities 1 B-64 KiB, read chunking "
    "greedy/random/1-byte, stall faults, uniform/sticky/PCT schedules and 0-3 line preemptions; plus two profiles: a timed "
    "receive whose deadline coincides with the arrival of the last items and the close, and strict request/response "
    "traffic with frames larger than the pipe (thread, main_thread_only and gevent workers, whose write end is a "
    "buffered writer over short non-blocking writes).  Non-trivial = at least "
    "two items crossed the wire and the schedule had real choices; distinct = distinct event-log digests."
)
ASSUMPTIONS = [
    "the kernel pipe/socket model of vsim.sio (atomic buffered writes per file object, short reads, blocking when full)",
    "schedules are sampled (sync points + <=3 line preemptions per run), not enumerated",
    "ground truth = bytes accepted by the simulated kernel, decoded by vsim.wire (independent of execnet)",
]
COMPONENTS = {
    "real": ["gateway_base (Channel, ChannelFactory, Message, BaseGateway, WorkerGateway, WorkerPool, Popen2IO, "
             "serializer)", "gateway.Gateway", "multi.Group", "gateway_io (Popen2IOMaster, ProxyIO, serve_proxy_io)",
             "gateway_bootstrap", "gateway_socket.SocketIO", "script/socketserver.py"],
    "stub": ["kernel pipes/sockets/process table/clock (vsim)", "subprocess.Popen (no interpreter started)",
             "init_popen_io + get_execmodel in the bootstrap tail"],
}


def gen(rng, tier):
    r = rng.random()
    if r < 0.12:
        return gen_timeout_race(rng, tier)
    if r < 0.22:
        return gen_pingpong(rng, tier)
    return gen_profile(rng, tier)


def gen_pingpong(rng, tier):
    """Request/response: each side sends its next item only after it has received the other's previous one, so
    an item that is accepted by send() but not put on the wire (a tail left in a write buffer) stops everything."""
    backend = rng.choice(["thread", "gevent", "gevent", "main_thread_only"])
    transport = rng.choice(["popen", "popen", "proxy", "socket"])
    specs, gwi = L.gateways_for(transport, backend)
    label = "c0"
    rounds = rng.randrange(1, 5)
    iops, wops = [], []
    for k in range(rounds):
        big_req = rng.random() < 0.3
        req = ["bytes", rng.choice([9000, 66000, 67536, 133072, 200000])] if big_req else L.gen_fill(rng)
        rep = ["bytes", rng.choice([9000, 66000, 67536, 70000, 133072, 200000])] if rng.random() < 0.7 else L.gen_fill(rng)
        iops.append(["send", label, f"{label}:i2w:2:{k}", req])
        wops.append(["recv", label])
        wops.append(["send", label, f"{label}:w2i:1:{k}", rep])
        iops.append(["recv", label])
    wops.append(["recv", label])  # keeps the body (and with it the channel) open: nothing flushes behind the last reply
    iops.append(["close", label])
    actors = [{"side": "i", "gw": gwi, "chan": None,
               "ops": [["exec", label, 1, gwi], ["spawn", 2], ["join", 2, 900], ["terminate", 10.0]]},
              {"side": "w", "gw": gwi, "chan": label, "ops": wops},
              {"side": "i", "gw": gwi, "chan": label, "ops": iops}]
    return {"gateways": specs, "actors": actors,
            "knobs": {"pipe_cap": rng.choice([4096, 65536, 65536]), "sock_cap": rng.choice([4096, 65536]),
                      "chunk": rng.choice(["greedy", "random"])},
            "strategy": L.gen_strategy(rng), "preempt": [], "preempt_at": [], "faults": [], "transport": transport,
            "backend": backend, "gwi": gwi}


def gen_timeout_race(rng, tier):
    """A timed receive whose deadline coincides (same simulated instant) with the arrival of the last items and of
    the close: whichever order the woken tasks run in, and wherever receive() is preempted, the items come first."""
    backend = rng.choice(["thread", "thread", "main_thread_only"])
    transport = rng.choice(["popen", "popen", "socket"])
    specs, gwi = L.gateways_for(transport, backend)
    T = rng.choice([0.05, 0.5, 2.0])
    n = rng.randrange(1, 4)
    early = rng.randrange(0, 2)
    label = "c0"
    wops = [["send", label, f"{label}:w2i:1:{k}", L.gen_fill(rng)] for k in range(early)]
    wops.append(["sleep", T * rng.choice([1, 1, 2])])
    wops += [["send", label, f"{label}:w2i:1:{early + k}", L.gen_fill(rng)] for k in range(n)]
    rops = [["recv_t", label, T, 400] for _ in range(early + n)] + [["recv", label]]
    actors = [{"side": "i", "gw": gwi, "chan": None,
               "ops": [["exec", label, 1, gwi], ["spawn", 2], ["join", 2, 900], ["terminate", 10.0]]},
              {"side": "w", "gw": gwi, "chan": label, "ops": wops},
              {"side": "i", "gw": gwi, "chan": label, "ops": rops}]
    pa = [["receive", rng.randrange(1, 60)] for _ in range(rng.randrange(1, 4))]
    return {"gateways": specs, "actors": actors, "knobs": {"pipe_cap": 65536, "sock_cap": 65536, "chunk": "greedy"},
            "strategy": L.gen_strategy(rng), "preempt": [], "preempt_at": pa, "faults": [], "transport": transport,
            "backend": backend, "gwi": gwi}


def gen_profile(rng, tier, senders=(1, 2), big_p=0.25, transports=(45, 12, 18, 25)):
    transport = rng.choices(["popen", "bare", "socket", "proxy"], list(transports))[0]
    backend = rng.choice(["thread", "thread", "main_thread_only", "gevent"])
    nch = rng.choice([1, 1, 2, 3])
    if backend == "main_thread_only":
        nch = 1  # concurrent remote_execs are refused by design there
    specs, gwi = L.gateways_for(transport, backend)
    knobs = L.gen_knobs(rng, small_ok=transport in ("popen",))
    if transport in ("bare", "proxy", "socket") and knobs["pipe_cap"] < 4096:
        knobs["pipe_cap"] = 4096
    big = rng.random() < big_p
    if big and knobs["pipe_cap"] < 4096:
        knobs["pipe_cap"] = 4096
    if big and knobs["sock_cap"] < 4096:
        knobs["sock_cap"] = 4096
    actors = [{"side": "i", "gw": gwi, "chan": None, "ops": []}]
    main = actors[0]["ops"]
    spawned = []
    for ci in range(nch):
        label = f"c{ci}"
        ni = rng.randrange(0, 7) if senders == (1, 2) else rng.randrange(2, 9)
        nw = rng.randrange(0, 7) if senders == (1, 2) else rng.randrange(2, 9)
        # ---- worker body actor
        waid = len(actors)
        wact = {"side": "w", "gw": gwi, "chan": label, "ops": []}
        actors.append(wact)
        main.append(["exec", label, waid, gwi])
        # split items among senders
        def split(n, side, first_aid, mk_second):
            parts = [(first_aid, n)]
            want = rng.randrange(senders[0], senders[1] + 1)
            if senders == (1, 2):
                want = 2 if (n >= 2 and rng.random() < 0.4) else 1
            while len(parts) < want and parts[0][1] >= 2:
                cut = rng.randrange(1, parts[0][1])
                parts[0] = (first_aid, parts[0][1] - cut)
                parts.append((mk_second(), cut))
            return parts
        # initiator senders
        isend_aid = len(actors)
        actors.append({"side": "i", "gw": gwi, "chan": label, "ops": []})
        spawned.append(isend_aid)

        def mk_i2():
            actors.append({"side": "i", "gw": gwi, "chan": label, "ops": []})
            spawned.append(len(actors) - 1)
            return len(actors) - 1
        wsubs = []

        def mk_w2():
            actors.append({"side": "w", "gw": gwi, "chan": label, "ops": []})
            wsubs.append(len(actors) - 1)
            return len(actors) - 1
        for aid, cnt in split(ni, "i", isend_aid, mk_i2):
            for k in range(cnt):
                tok = f"{label}:i2w:{aid}:{k}"
                actors[aid]["ops"].append(["send", label, tok, L.gen_fill(rng, big)])
                if rng.random() < 0.2:
                    actors[aid]["ops"].append(["yield", rng.randrange(1, 4)])
            if cnt and rng.random() < 0.15:
                # before the last item, so that the channel is certainly still open
                actors[aid]["ops"].insert(len(actors[aid]["ops"]) - 1 - (actors[aid]["ops"][-1][0] == "yield"),
                                          ["send_bad", label, f"{label}:i2w:{aid}:bad"])
        wsend_parts = split(nw, "w", waid, mk_w2)
        # worker: optional sub-sender, receive plan, own sends interleaved
        wops = wact["ops"]
        for sub in wsubs:
            wops.append(["spawn", sub])
        wmode = rng.choice(["recv", "recv", "recv_t", "cb"]) if ni else "none"
        recv_ops = []
        if wmode == "recv":
            recv_ops = [["recv", label] for _ in range(ni)]
        elif wmode == "recv_t":
            recv_ops = [["recv_t", label, rng.choice([0.05, 0.5, 2.0]), 200] for _ in range(ni)]
        elif wmode == "cb":
            pos = "early"
            recv_ops = [["setcb", label, False, None, ni, f"{label}-wgot"], ["latch_wait", f"{label}-wgot", 300]]
        own = []
        for aid, cnt in wsend_parts:
            ops = []
            for k in range(cnt):
                tok = f"{label}:w2i:{aid}:{k}"
                ops.append(["send", label, tok, L.gen_fill(rng, big)])
            if aid == waid:
                own = ops
            else:
                actors[aid]["ops"].extend(ops)
        # interleave own sends and receives
        if wmode == "cb":
            # items that arrived before setcallback must be handed over: vary the position
            k = rng.randrange(0, len(own) + 1)
            merged = own[:k] + recv_ops[:1] + own[k:] + recv_ops[1:]
        else:
            merged = []
            a, b = list(own), list(recv_ops)
            while a or b:
                if a and (not b or rng.random() < 0.5):
                    merged.append(a.pop(0))
                else:
                    merged.append(b.pop(0))
        wops.extend(merged)
        for sub in wsubs:
            wops.append(["join", sub, 300])
        # ---- initiator receivers of w2i
        imode = rng.choice(["drain", "iter", "cb", "multi", "recv_t"])
        raid = len(actors)
        ract = {"side": "i", "gw": gwi, "chan": label, "ops": []}
        actors.append(ract)
        spawned.append(raid)
        if imode in ("drain", "iter"):
            ract["ops"].append([imode, label])
        elif imode == "cb":
            if rng.random() < 0.5:
                ract["ops"].append(["yield", rng.randrange(1, 30)])
            ract["ops"].append(["setcb", label, True, None])
            ract["ops"].append(["waitclose", label, 300])
        elif imode == "recv_t":
            for _ in range(nw):
                ract["ops"].append(["recv_t", label, rng.choice([0.05, 0.5, 2.0]), 200])
            ract["ops"].append(["recv", label])  # EOFError expected
        else:  # two concurrent receivers on one channel
            a = rng.randrange(0, nw + 1)
            for _ in range(a):
                ract["ops"].append(["recv", label])
            r2 = len(actors)
            actors.append({"side": "i", "gw": gwi, "chan": label,
                           "ops": [["recv", label] for _ in range(nw - a)] + [["recv", label]]})
            spawned.append(r2)
    for aid in spawned:
        main.append(["spawn", aid])
    for aid in spawned:
        main.append(["join", aid, 600])
    main.append(["terminate", 10.0])
    faults = []
    for _ in range(rng.choice([0, 0, 1, 2])):
        faults.append({"at": ["step", rng.randrange(50, 1500)],
                       "do": ["stall", rng.choice(["w1", "w2", "init"]), rng.choice([0.1, 1.0, 3.0])]})
    return {"gateways": specs, "actors": actors, "knobs": knobs, "strategy": L.gen_strategy(rng),
            "preempt": L.gen_preempt(rng, 4000), "preempt_at": L.gen_preempt_at(rng, ["_local_receive", "receive", "setcallback", "_send", "to_io", "from_io", "_thread_receiver", "send", "write", "read"]), "faults": faults, "transport": transport,
            "backend": backend, "gwi": gwi}


def shrink_cases(case):
    if case.get("preempt_at"):
        for i in range(len(case["preempt_at"])):
            c = dict(case)
            c["preempt_at"] = case["preempt_at"][:i] + case["preempt_at"][i + 1:]
            yield c
    # drop faults / preemptions, calm knobs; (actor programs are interdependent, keep them)
    if case.get("faults"):
        for i in range(len(case["faults"])):
            c = dict(case)
            c["faults"] = case["faults"][:i] + case["faults"][i + 1:]
            yield c
    if case.get("preempt"):
        for i in range(len(case["preempt"])):
            c = dict(case)
            c["preempt"] = case["preempt"][:i] + case["preempt"][i + 1:]
            yield c
    k = case["knobs"]
    if k.get("chunk") != "greedy":
        c = dict(case)
        c["knobs"] = dict(k, chunk="greedy")
        yield c
    if k.get("pipe_cap") != 65536:
        c = dict(case)
        c["knobs"] = dict(k, pipe_cap=65536)
        yield c
    # simpler fillers
    for ai, a in enumerate(case["actors"]):
        for oi, op in enumerate(a["ops"]):
            if op[0] == "send" and op[3] != ["none"]:
                c = dict(case)
                c["actors"] = [dict(x) for x in case["actors"]]
                c["actors"][ai]["ops"] = list(a["ops"])
                c["actors"][ai]["ops"][oi] = [op[0], op[1], op[2], ["none"]]
                yield c


def execute(case, chooser):
    res = gwsim.run_case(case, chooser, max_steps=150_000)
    gwsim.check_harness(res)
    hist = L.Hist(res)
    V = oracle(case, res, hist)
    sent = sum(1 for _ in hist.ops(("send",)))
    sample = None
    if chooser.rng is not None and chooser.rng.random() < 0.004:
        sample = {"transport": case["transport"], "backend": case["backend"], "knobs": case["knobs"],
                  "strategy": case["strategy"], "preempt": case["preempt"], "faults": case["faults"],
                  "actors": [{"side": a["side"], "chan": a["chan"], "ops": [o[:3] for o in a["ops"]]}
                             for a in case["actors"]],
                  "history_len": len(res.H)}
    feats = {(case["transport"], case["backend"], case["knobs"]["chunk"])}
    return gwsim.summarize(res, chooser, nontrivial=sent >= 2 and len(chooser.trace) > 0, feats=feats,
                           sample=sample, violations=V)


def oracle(case, res, hist):
    V = L.generic_rules(
        res, hist,
        allow_exc={("send_bad", "DumpError"), ("recv", "EOFError")},
        key=case["transport"])
    ids = hist.chan_ids()
    tw, fw = L.target_pipes(res)
    if tw is None:
        return V
    wire_tokens = {}
    for pipe, direction, dname in ((tw, "to_worker", "i2w"), (fw, "from_worker", "w2i")):
        frames, end, bad, total = L.wire_frames(pipe, direction)
        if bad is not None:
            V.append(v("stream-unparseable", f"{case['transport']};{dname}", f"bad header at {bad}"))
        wire_tokens[dname] = wire.data_tokens_by_channel(frames)
    # specs of all sends
    spec = {}
    sent_ok = {}
    for aid, oi, op, s1, s2, r in hist.ops(("send", "send_bad")):
        tok = op[2]
        if op[0] == "send":
            spec[tok] = op[3]
            if r is not None and r[0] == "ok":
                sent_ok[tok] = (s1, s2)
        else:
            if r is None or r[0] != "exc" or r[1] != "DumpError":
                V.append(v("unserialisable-not-rejected", "send", f"{tok}: {r}"))
    # deliveries
    pops = {}
    for seq, qlabel, tok in res.sched.poplog:
        pops.setdefault(tok, []).append(seq)
    deliveries = {}  # (label, dir) -> list of (orderkey, token, canon, how, recv_label)
    eof_seen = {}

    def add(label, tok, cn, how, seq):
        parts = tok.split(":") if tok else [None, None]
        key = (parts[0], parts[1]) if tok else (label, "?")
        order = pops[tok][0] if (tok in pops and how != "cb") else seq
        deliveries.setdefault(key, []).append((order, tok, cn, how, label))

    for aid, oi, op, s1, s2, r in hist.ops(("recv", "recv_t", "drain", "iter", "setcb")):
        label = op[1]
        side = case["actors"][aid]["side"]
        if op[0] in ("recv", "recv_t"):
            if r and r[0] == "item":
                add(label, r[1], r[2], "recv", s2)
            elif r and r[0] == "exc" and r[1] == "EOFError":
                eof_seen[(label, side)] = True
            if op[0] == "recv_t":
                for seq, d in hist.sub.get((aid, oi), ()):
                    pass
                if r and r[0] == "gave-up":
                    V.append(v("timed-receive-starved", "recv_t", f"actor {aid} op {oi}: item never arrived in 200 tries"))
        elif op[0] in ("drain", "iter"):
            for seq, d in hist.sub.get((aid, oi), ()):
                if d[0] == "item":
                    add(label, d[1], d[2], "recv", seq)
                elif d[0] == "eof":
                    eof_seen[(label, side)] = True
        else:
            for seq, d in hist.cb.get((aid, oi), ()):
                if d[0] == "item":
                    add(label, d[1], d[2], "cb", seq)
                elif d[0] == "end":
                    eof_seen[(label, side)] = True
    for (label, d), lst in sorted(deliveries.items(), key=repr):
        lst.sort(key=lambda x: x[0])
        chid = ids.get(label)
        W = wire_tokens.get(d, {}).get(chid, []) if chid is not None else []
        D = [x[1] for x in lst]
        seen = set()
        for order, tok, cn, how, rlabel in lst:
            if tok is None:
                V.append(v("foreign-item", f"{how}", f"item without token delivered on {rlabel}: {cn}"))
                continue
            if tok in seen:
                V.append(v("dup-item", f"{how}", f"{tok} delivered twice on {rlabel}"))
            seen.add(tok)
            if tok.split(":")[0] != rlabel:
                V.append(v("leak-other-channel", f"{how}", f"{tok} delivered on channel {rlabel}"))
            if tok in spec:
                exp = L.expected_canon(tok, spec[tok])
                if exp != cn:
                    V.append(v("item-corrupt", f"{how}", f"{tok}: got {cn[:120]} expected {exp[:120]}"))
            else:
                V.append(v("item-never-sent", f"{how}", f"{tok} delivered but not in the program"))
        Du = [t for i, t in enumerate(D) if t is not None and t not in D[:i]]
        if Du != W[:len(Du)]:
            V.append(v("reorder", f"{d}", f"channel {label} {d}: delivered {Du} is not a prefix of wire order {W}"))
        side = "i" if d == "w2i" else "w"
        if eof_seen.get((label, side)) and set(W) - set(Du):
            V.append(v("lost-item", f"{d}", f"channel {label} {d}: receiver saw EOF, never got {sorted(set(W) - set(Du), key=str)}"))
    # every acknowledged send is on the wire exactly once, per-sender program order kept
    for d in ("i2w", "w2i"):
        allw = []
        for chid, toks in wire_tokens[d].items():
            for t in toks:
                allw.append((chid, t))
        flat = [t for _, t in allw if t]
        for tok in sent_ok:
            if tok.split(":")[1] != d:
                continue
            c = flat.count(tok)
            if c != 1:
                V.append(v("send-not-once-on-wire", f"{d};count={min(c, 2)}", f"{tok} appears {c} times on the wire"))
        for chid, toks in wire_tokens[d].items():
            last = {}
            lab = None
            for t in toks:
                if not t:
                    continue
                parts = t.split(":")
                if len(parts) != 4 or parts[3] == "bad":
                    if parts[-1] == "bad":
                        V.append(v("unserialisable-on-wire", d, t))
                    continue
                if not parts[3].isdigit():
                    # garbage between the token brackets: the stream itself is damaged (reported by the frame rules)
                    V.append(v("garbled-token-on-wire", d, repr(t)[:80]))
                    continue
                snd, k = parts[2], int(parts[3])
                if last.get(snd, -1) >= k:
                    V.append(v("sender-order", d, f"{t} after k={last[snd]} on channel id {chid}"))
                last[snd] = k
                if ids.get(parts[0]) != chid:
                    V.append(v("wrong-channel-id-on-wire", d, f"{t} sent on id {chid}, channel {parts[0]} has id {ids.get(parts[0])}"))
    return V
