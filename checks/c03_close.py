"""C03 - close is ordered after data and observed consistently by both sides.

Template: a subject channel T (the remote_exec channel or a sub-channel passed over it) is closed by one side
(explicit close / end of the remote body / dropping the last reference + gc) after sending k items; the peer has
1-3 tasks blocked in receive, waitclose callers and callback observers; every observer runs probes
(send, isclosed, waitclose, second close, receive again) after it has observed the close.
"""

from __future__ import annotations

from vsim import gwsim, wire

from . import chanlib as L
from .chanlib import v

PROP = "C03"
LEVEL = "exploration"
BUDGET = {
    "quick": {"budget_s": 45, "chunk": 80, "shrink_s": 40},
    "thorough": {"budget_s": 900, "chunk": 200, "shrink_s": 120},
}
RULE = (
    "cases: subject channel (exec channel or sub-channel created on either side and passed over a channel) closed by "
    "explicit close / end of remote body (also by an EOFError leaving it) / reference drop + gc after 0-6 items, with 1-3 concurrent receivers, "
    "waitclose callers and endmarker-callback observers on the peer, each followed by probes (send, isclosed, "
    "waitclose, close, receive, own close of the observer; 30 % of the send probes with an item that cannot be serialised); optionally a probe that waitclose(timeout) times out while "
    "the channel is still open, and large frames on a sibling channel written by the closing side at the same time; "
    "popen/bare/socket/proxy transports, small pipes, schedules uniform/sticky/PCT with "
    "0-3 line preemptions.  Non-trivial = the close was observed by at least one peer task under a schedule with real "
    "choices; distinct = distinct event-log digests."
)
ASSUMPTIONS = [
    "sends that returned before close() was invoked count as 'sent before close' (history order by global sequence number)",
    "the documented sendonly state (peer dropped its end with a callback installed) is exempt from the send/isclosed probes",
    "schedules sampled (sync points + <=3 line preemptions)",
]
COMPONENTS = c = {
    "real": ["gateway_base Channel/ChannelFactory/_local_close/Channel.__del__/WorkerGateway.executetask", "Gateway",
             "Group", "transports as in C02"],
    "stub": ["kernel pipes/sockets/processes (vsim)", "cyclic GC replaced by explicit gc ops (refcounting is real)"],
}


SENDS = ("send", "send_bad")


def gen(rng, tier):
    transport = rng.choices(["popen", "bare", "socket", "proxy"], [55, 10, 15, 20])[0]
    backend = rng.choice(["thread", "thread", "main_thread_only", "gevent"])
    specs, gwi = L.gateways_for(transport, backend)
    knobs = L.gen_knobs(rng, small_ok=transport == "popen")
    if transport != "popen" and knobs["pipe_cap"] < 4096:
        knobs["pipe_cap"] = 4096
    subject = rng.choice(["c0", "c0", "s"])
    k = rng.randrange(0, 7)
    actors = [{"side": "i", "gw": gwi, "chan": None, "ops": []}]
    main = actors[0]["ops"]
    W = {"side": "w", "gw": gwi, "chan": "c0", "ops": []}
    actors.append(W)
    main.append(["exec", "c0", 1, gwi])

    def new_actor(side):
        actors.append({"side": side, "gw": gwi, "chan": "c0", "ops": []})
        return len(actors) - 1

    if subject == "c0":
        closer, kind = rng.choice([("w", "endbody"), ("w", "endbody"), ("i", "explicit"), ("i", "explicit"),
                                   ("i", "drop"), ("i", "dropcb")])
    else:
        closer = rng.choice(["i", "w"])
        kind = rng.choice(["explicit", "explicit", "drop", "dropcb"])
        creator = rng.choice(["i", "w"])
        nest = rng.choice(["bare", "list", "tuple", "dict"])
        if creator == "i":
            main += [["newchan", "s"], ["sendchan", "c0", "s", "c0:i2w:0:chan", nest]]
            W["ops"] += [["recvchan", "c0", "s"]]
        else:
            W["ops"] += [["newchan", "s"], ["sendchan", "c0", "s", "c0:w2i:1:chan", nest]]
            main += [["recvchan", "c0", "s"]]
    peer = "w" if closer == "i" else "i"
    T = subject
    d = "i2w" if closer == "i" else "w2i"
    # ---- closer ops
    closer_ops = []
    closer_aid_holder = []
    for j in range(k):
        closer_ops.append(["send", T, None, L.gen_fill(rng, False)])  # token filled below
        if rng.random() < 0.2:
            closer_ops.append(["yield", rng.randrange(1, 4)])
    open_probe = rng.random() < 0.25
    if open_probe:
        # the channel stays open until a peer task has seen waitclose(timeout) time out on it
        closer_ops.append(["latch_wait", "open-probed", 900])
    if kind == "explicit":
        closer_ops.append(["close", T])
        probes = [["send", T, "probe", ["none"]], ["isclosed", T], ["waitclose", T, 5.0], ["close", T]]
        rng.shuffle(probes)
        closer_ops += probes
    elif kind == "drop":
        closer_ops += [["drop", T], ["gc"]]
    elif kind == "dropcb":
        closer_ops += [["setcb", T, False, None], ["drop", T], ["gc"]]
    # ---- observers on the peer
    observers = []
    nrecv = rng.choice([1, 1, 2, 3])
    can_close_probe = not (T == "c0" and peer == "w")
    sendonly = kind == "dropcb"

    def probes_for(after_recv):
        pr = []
        if not sendonly:
            pr.append(["send", T, "probe", ["none"]])
            pr.append(["isclosed", T])
        pr.append(["waitclose", T, 5.0])
        if after_recv:
            pr.append(["recv", T])
        rng.shuffle(pr)
        if can_close_probe and rng.random() < 0.7:
            # the observer closes its own end: from then on it is a closing side itself
            pr += [["close", T], ["isclosed", T], ["send", T, "probe", ["none"]], ["close", T]]
        return pr

    use_cb = rng.random() < 0.2
    if use_cb:
        aid = new_actor(peer)
        observers.append(aid)
        actors[aid]["ops"] = [["setcb", T, True, None, None, None, "obs-end"], ["latch_wait", "obs-end", 600]] + probes_for(False)
    else:
        for _ in range(nrecv):
            aid = new_actor(peer)
            observers.append(aid)
            actors[aid]["ops"] = [["drain", T]] + probes_for(True)
    if rng.random() < 0.5:
        aid = new_actor(peer)
        observers.append(aid)
        actors[aid]["ops"] = [["waitclose", T, None]] + probes_for(False)
    # tasks on the CLOSING side that are blocked in waitclose()/receive() when their own side closes explicitly
    closer_obs = []
    if kind == "explicit" and rng.random() < 0.35:
        for _ in range(rng.choice([1, 1, 2])):
            aid = new_actor(closer)
            closer_obs.append(aid)
            first = rng.choice([["waitclose", T, None], ["drain", T]])
            actors[aid]["ops"] = [first, ["isclosed", T], ["send", T, "probe", ["none"]], ["waitclose", T, 5.0]]
    extras = []
    if open_probe:
        aid = new_actor(peer)
        extras.append(aid)
        actors[aid]["ops"] = [["waitclose_open", T, rng.choice([0.01, 0.3, 2.0])], ["latch_set", "open-probed"]]
    # ---- assemble
    if closer == "w":
        if kind == "endbody":
            # worker body: items, then the body ends (after its helper actors)
            closer_aid = 1
            for op in closer_ops:
                if op[0] == "send":
                    op[2] = None
            W["ops"] += closer_ops
            if rng.random() < 0.3:
                # the body ends because an EOFError leaves it (the usual end of a worker receive loop): by design
                # that is an ordinary end of the remote_exec, so the channel is closed all the same
                W["ops"].append(["propagate", ["raise_named", "EOFError"]])
        else:
            closer_aid = 1
            W["ops"] += [["spawn", a] for a in closer_obs]
            W["ops"] += closer_ops
            W["ops"] += [["join", a, 600] for a in closer_obs]
            W["ops"] += [["latch_wait", "fin", 900]]
        for aid in observers + extras:
            main.append(["spawn", aid])
        for aid in observers + extras:
            main.append(["join", aid, 600])
        main.append(["latch_set", "fin"])
    else:
        closer_aid = new_actor("i")
        actors[closer_aid]["ops"] = closer_ops
        for aid in observers + extras:
            W["ops"].append(["spawn", aid])
        W["ops"].append(["latch_set", "obs-started"])
        for aid in observers + extras:
            W["ops"].append(["join", aid, 600])
        if subject == "s":
            W["ops"].append(["latch_wait", "fin", 900])
        for a in closer_obs:
            main.append(["spawn", a])
        main.append(["spawn", closer_aid])
        main.append(["join", closer_aid, 600])
        for a in closer_obs:
            main.append(["join", a, 600])
        main.append(["latch_set", "fin"])
    for a in actors:
        for i, op in enumerate(a["ops"]):
            if op[0] == "send" and op[2] == "probe" and rng.random() < 0.3:
                # a send on a closed channel is refused whatever the item is: also one that cannot be serialised
                a["ops"][i] = ["send_bad", op[1], "probe"]
    n = 0
    for op in actors[closer_aid]["ops"]:
        if op[0] == "send" and op[2] is None:
            op[2] = f"{T}:{d}:{closer_aid}:{n}"
            n += 1
    if backend != "main_thread_only" and rng.random() < 0.25:
        # unrelated traffic of large frames on a sibling channel, written by the closing side at the same time:
        # the close and the items before it share the connection with them
        big = [["bytes", 70000], ["bytes", 200000], ["str", 70000, "a"]]
        NW = new_actor("w")
        actors[NW]["chan"] = "n0"
        NI = new_actor("i")
        nn = rng.randrange(1, 4)
        if closer == "w":
            actors[NW]["ops"] = [["send", "n0", f"n0:w2i:{NW}:{j}", rng.choice(big)] for j in range(nn)]
            actors[NI]["ops"] = [["drain", "n0"]]
        else:
            actors[NW]["ops"] = [["drain", "n0"]]
            actors[NI]["ops"] = [["send", "n0", f"n0:i2w:{NI}:{j}", rng.choice(big)] for j in range(nn)] + [["close", "n0"]]
        main.insert(1, ["exec", "n0", NW, gwi])
        main.insert(2, ["spawn", NI])
        main.append(["join", NI, 900])
        if knobs["pipe_cap"] < 4096:
            knobs["pipe_cap"] = 4096
        if knobs.get("chunk") == "one":
            knobs["chunk"] = "random"
    if not (T == "c0" and kind in ("drop", "dropcb")):
        main.append(["waitclose", "c0", 900])
    main.append(["terminate", 10.0])
    return {"gateways": specs, "actors": actors, "knobs": knobs, "strategy": L.gen_strategy(rng),
            "preempt": L.gen_preempt(rng, 3000), "preempt_at": L.gen_preempt_at(rng, ["_local_close", "close", "receive", "_no_longer_opened", "__del__", "send", "waitclose", "executetask"]), "faults": [], "transport": transport, "backend": backend,
            "gwi": gwi, "subject": T, "closer": closer, "kind": kind, "peer": peer, "nitems": k,
            "closer_aid": closer_aid, "observers": observers, "dir": d, "extras": extras, "closer_obs": closer_obs}


def shrink_cases(case):
    if case.get("preempt_at"):
        for i in range(len(case["preempt_at"])):
            c = dict(case)
            c["preempt_at"] = case["preempt_at"][:i] + case["preempt_at"][i + 1:]
            yield c
    if case.get("preempt"):
        for i in range(len(case["preempt"])):
            c = dict(case)
            c["preempt"] = case["preempt"][:i] + case["preempt"][i + 1:]
            yield c
    k = case["knobs"]
    if k.get("chunk") != "greedy" or k.get("pipe_cap") != 65536:
        c = dict(case)
        c["knobs"] = dict(k, chunk="greedy", pipe_cap=65536)
        yield c


def execute(case, chooser):
    res = gwsim.run_case(case, chooser, max_steps=150_000)
    gwsim.check_harness(res)
    hist = L.Hist(res)
    V = oracle(case, res, hist)
    observed = any(True for a in case["observers"] if hist.done.get(a))
    sample = None
    if chooser.rng is not None and chooser.rng.random() < 0.004:
        sample = {k: case[k] for k in ("transport", "backend", "subject", "closer", "kind", "nitems", "knobs",
                                       "strategy", "preempt")}
        sample["actors"] = [{"side": a["side"], "ops": [o[:3] for o in a["ops"]]} for a in case["actors"]]
    feats = {(case["transport"], case["subject"], case["closer"], case["kind"])}
    return gwsim.summarize(res, chooser, nontrivial=observed and len(chooser.trace) > 0, feats=feats,
                           sample=sample, violations=V)


def oracle(case, res, hist):
    T = case["subject"]
    kind = case["kind"]
    key0 = f"{kind};{T if T == 's' else 'exec'};closer={case['closer']}"
    allow = {("recv", "EOFError"), ("send", "OSError"), ("send_bad", "OSError"), ("propagate", "EOFError"), ("waitclose_open", "TimeoutError")}
    V = L.generic_rules(res, hist, allow_exc=allow, key=key0)
    for aid in case.get("closer_obs", ()):
        # woken by the close of its own side: from that moment on the closing side's view applies
        r0 = hist.ret.get((aid, 0))
        if r0 is None:
            continue
        ric = hist.ret.get((aid, 1))
        if ric is not None and ric[1] != ("val", True):
            V.append(v("isclosed-false-after-own-side-close", key0, f"actor {aid} was woken by the close of its own side, isclosed() -> {ric[1]}"))
        rs = hist.ret.get((aid, 2))
        if rs is not None and not (rs[1][0] == "exc" and rs[1][1] == "OSError"):
            V.append(v("send-accepted-after-own-side-close", key0, f"actor {aid} was woken by the close of its own side, send -> {rs[1]}"))
    for aid in case.get("extras", ()):
        r = hist.ret.get((aid, 0))
        if r is not None and not (r[1][0] == "exc" and r[1][1] == "TimeoutError"):
            V.append(v("waitclose-returned-on-open-channel", key0,
                       f"waitclose(timeout) on a channel that nobody had closed yet -> {r[1]}"))
    closer_aid = case["closer_aid"]
    # --- what was sent before the close, and when was the close invoked
    sent = []
    close_inv = None
    for aid, oi, op, s1, s2, r in hist.ops():
        if aid != closer_aid:
            continue
        if op[0] == "send" and op[2] != "probe":
            if r is not None and r[0] == "ok":
                sent.append(op[2])
            elif r is not None:
                V.append(v("send-before-close-failed", key0, f"{op[2]}: {r}"))
        if close_inv is None and op[0] in ("close", "drop") and op[1] == T:
            close_inv = s1
    # --- deliveries on the peer side
    pops = {}
    for seq, qlabel, tok in res.sched.poplog:
        pops.setdefault(tok, seq)
    D = []
    first_eof = None
    for aid in case["observers"]:
        for oi, op in enumerate(case["actors"][aid]["ops"]):
            if op[0] == "drain":
                for seq, dd in hist.sub.get((aid, oi), ()):
                    if dd[0] == "item":
                        D.append((pops.get(dd[1], seq), dd[1], seq))
                    elif dd[0] == "eof":
                        first_eof = seq if first_eof is None else min(first_eof, seq)
            elif op[0] == "setcb":
                for seq, dd in hist.cb.get((aid, oi), ()):
                    if dd[0] == "item":
                        D.append((seq, dd[1], seq))
                    elif dd[0] == "end":
                        first_eof = seq if first_eof is None else min(first_eof, seq)
    D.sort()
    neof = sum(1 for aid in case["observers"] for oi, op in enumerate(case["actors"][aid]["ops"]) if op[0] == "drain"
               for s_, dd in hist.sub.get((aid, oi), ()) if dd[0] == "eof")
    if neof >= 2:
        res.sched.probe("endmarker-requeued-for-another-receiver")
    toks = [t for _, t, _ in D]
    has_receiver = any(op[0] in ("drain", "setcb") for a in case["observers"] for op in case["actors"][a]["ops"])
    if has_receiver:
        if len(set(toks)) != len(toks):
            V.append(v("dup-item", key0, f"{toks}"))
        if first_eof is not None:
            if toks != sent:
                missing = [t for t in sent if t not in toks]
                if missing:
                    V.append(v("item-sent-before-close-lost", key0,
                               f"sent before close {sent}, delivered before EOF {toks}"))
                else:
                    V.append(v("reorder", key0, f"sent {sent}, delivered {toks}"))
            # (pop time of the item versus record time of the EOF observation: sound, because the
            #  EOF is recorded after the endmarker was taken from the queue)
            late = [t for popseq, t, seq in D if popseq > first_eof]
            if late:
                V.append(v("item-after-eof", key0, f"{late} obtained after the first EOF observation"))
    # --- observers: probes after their observation
    sendonly = kind == "dropcb"
    for aid in case["observers"]:
        ops = case["actors"][aid]["ops"]
        observed_at = None
        own_close = False
        for oi, op in enumerate(ops):
            r = hist.ret.get((aid, oi))
            if observed_at is None:
                if op[0] in ("drain",) and r is not None:
                    eofs = [s for s, dd in hist.sub.get((aid, oi), ()) if dd[0] == "eof"]
                    if eofs:
                        observed_at = oi
                    elif r[1][0] == "exc":
                        V.append(v("receive-raised-other", f"{key0};{r[1][1]}", f"actor {aid}: {r[1]}"))
                elif op[0] == "waitclose" and op[2] is None and r is not None:
                    if r[1][0] == "ok":
                        observed_at = oi
                    else:
                        V.append(v("waitclose-raised", f"{key0};{r[1][1]}", f"actor {aid}: {r[1]}"))
                elif op[0] == "latch_wait" and r is not None and r[1] == ("val", True):
                    observed_at = oi
                continue
            if r is None:
                continue  # blocked: reported by generic rules
            rr = r[1]
            if own_close:
                # after its own close() the observer is a closing side: no sendonly exemption any more
                if op[0] in SENDS and rr[0] == "ok":
                    V.append(v("send-after-own-close", key0, f"actor {aid}: send succeeded after its own close()"))
                elif op[0] in SENDS and rr[0] == "exc" and rr[1] != "OSError":
                    V.append(v("send-raised-other", f"{key0};{rr[1]}", f"{rr}"))
                elif op[0] == "isclosed" and rr != ("val", True):
                    V.append(v("isclosed-false-after-own-close", key0, f"actor {aid}: isclosed() -> {rr} after its own close()"))
                elif op[0] == "close" and rr[0] != "ok":
                    V.append(v("second-close-raised", f"{key0};{rr[1]}", f"{rr}"))
                continue
            if op[0] == "close" and rr[0] == "ok":
                own_close = True
                continue
            if op[0] in SENDS:
                if rr[0] == "ok" and not sendonly:
                    V.append(v("send-after-observed-close", key0,
                               f"actor {aid} observed the close at op {observed_at}, later send succeeded"))
                elif rr[0] == "exc" and rr[1] != "OSError":
                    V.append(v("send-raised-other", f"{key0};{rr[1]}", f"{rr}"))
            elif op[0] == "isclosed":
                if rr != ("val", True) and not sendonly:
                    V.append(v("isclosed-false-after-observed-close", key0,
                               f"actor {aid} observed the close at op {observed_at}, isclosed() -> {rr}"))
            elif op[0] == "waitclose":
                if rr[0] != "ok":
                    V.append(v("waitclose-after-close-failed", f"{key0};{rr[1] if len(rr) > 1 else rr[0]}", f"{rr}"))
            elif op[0] == "close":
                if rr[0] != "ok":
                    V.append(v("second-close-raised", f"{key0};{rr[1]}", f"{rr}"))
            elif op[0] == "recv":
                if rr[0] == "item":
                    V.append(v("item-after-eof", key0, f"actor {aid} received {rr[1]} after EOFError"))
                elif rr[0] == "exc" and rr[1] != "EOFError":
                    V.append(v("eof-not-repeated", f"{key0};{rr[1]}", f"{rr}"))
    # --- closing side, right after an explicit close
    if kind == "explicit":
        seen_close = False
        for oi, op in enumerate(case["actors"][closer_aid]["ops"]):
            r = hist.ret.get((closer_aid, oi))
            if not seen_close:
                if op[0] == "close" and op[1] == T:
                    seen_close = True
                    if r is not None and r[1][0] != "ok":
                        V.append(v("close-raised", f"{key0};{r[1][1]}", f"{r[1]}"))
                continue
            if r is None:
                continue
            rr = r[1]
            if op[0] in SENDS and rr[0] == "ok":
                V.append(v("send-after-own-close", key0, "send succeeded on the closing side"))
            elif op[0] in SENDS and rr[1] != "OSError":
                V.append(v("send-raised-other", f"{key0};{rr[1]}", f"{rr}"))
            elif op[0] == "isclosed" and rr != ("val", True):
                V.append(v("isclosed-false-after-own-close", key0, f"{rr}"))
            elif op[0] == "waitclose" and rr[0] != "ok":
                V.append(v("waitclose-after-own-close-failed", f"{key0};{rr[1]}", f"{rr}"))
            elif op[0] == "close" and rr[0] != "ok":
                V.append(v("second-close-raised", f"{key0};{rr[1]}", f"{rr}"))
    return V
