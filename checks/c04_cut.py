"""C04 - connection loss at any byte never hangs or corrupts the survivor.

A family of small workloads (1-3 channels, items of generated sizes; survivors: one or two blocked receivers,
a waitclose caller, an endmarker callback, a makefile('r') reader) is run with the peer->survivor byte stream CUT
after exactly n bytes (the dying side's write is truncated at byte n and its process is SIGKILLed at that instant),
in both directions (worker dies / initiator dies), on the popen and socket transports, plus SIGKILLs at generated
sync points and death of a proxied sub or of its forwarder.

quick    : samples (workload, transport, direction, n) and schedules.
thorough : ENUMERATES every n in [0, L] for every (workload, transport, direction) of the family - L is the length of
           the fault-free transcript - and then keeps sampling further schedules over the same space.
"""

from __future__ import annotations

import io
import random
import struct

from vsim import gwsim, wire
from vsim.kernel import Chooser

from . import chanlib as L
from .chanlib import v

PROP = "C04"
LEVEL = "fault_enumeration"
BUDGET = {
    "quick": {"budget_s": 45, "chunk": 150, "shrink_s": 40},
    "thorough": {"budget_s": 1200, "chunk": 400, "shrink_s": 120},
}
RULE = (
    "cases: (workload w from a fixed generated family of 10, transport popen|socket, direction worker-dies|initiator-"
    "dies, cut offset n in [0, L(w,transport,direction)]) x schedule seed; thorough enumerates all n (coverage keys "
    "'enumerated_cut_points' / 'enumeration_complete'), quick samples; plus SIGKILL-at-sync-point and proxy-death "
    "cases (observer: drain, send, receive, join, waitclose, newchannel, remote_exec).  Non-trivial = the fault fired and the survivor had at least one observer; distinct = distinct event-log digests."
)
ASSUMPTIONS = [
    "bytes accepted by the simulated kernel before the writer dies stay readable (pipe/socket buffer semantics)",
    "'from then on' is read as 'once the gateway has stopped receiving' (gw.join() returned); probes between the first "
    "observation and that point may succeed or raise OSError, never anything else, never block",
    "a cut inside the bootstrap handshake must make makegateway raise (not hang); initiator death before the bootstrap "
    "line was consumed exercises the stub and is excluded",
]
COMPONENTS = {
    "real": ["Popen2IO.read / SocketIO.read / Message.from_io", "BaseGateway._thread_receiver epilogue",
             "ChannelFactory._finished_receiving", "BaseGateway._send error mapping", "ChannelFileRead",
             "WorkerGateway._terminate_execution (survivor = worker)", "ProxyIO / serve_proxy_io (proxy deaths)"],
    "stub": ["kernel pipes/sockets/process table/signals (vsim)"],
}

NWORK = 10
TRANSPORTS = ["popen", "socket"]
DIRS = ["w2i", "i2w"]


# ---------------------------------------------------------------------------
# the workload family
# ---------------------------------------------------------------------------


def make_workload(wi):
    r = random.Random(1000 + wi)
    nch = r.choice([1, 2, 2, 3])
    chans = []
    kinds = ["recv1", "recv2", "cb", "file", "wc", "cbdrop", "selfclose"]
    for ci in range(nch):
        kind = kinds[(wi + ci) % len(kinds)] if ci else r.choice(["recv1", "recv2", "cb", "wc"])
        n = r.randrange(0, 4) if kind != "wc" else r.randrange(0, 2)
        sizes = [r.choice([0, 1, 5, 23, 40, 300]) for _ in range(n)]
        chans.append({"label": "c0" if ci == 0 else f"s{ci}", "kind": kind, "sizes": sizes})
    order = []
    for c in chans:
        for k in range(len(c["sizes"])):
            order.append((c["label"], k))
    r.shuffle(order)
    # keep per-channel order
    seen = {}
    fixed = []
    for lab, _ in order:
        k = seen.get(lab, 0)
        seen[lab] = k + 1
        fixed.append((lab, k))
    return {"chans": chans, "order": fixed}


WORKLOADS = [make_workload(i) for i in range(NWORK)]


def build_case(wi, transport, direction, rng, fault):
    """fault: None | ("cut", n) | ("kill_rstep", k) """
    wl = WORKLOADS[wi]
    specs, gwi = L.gateways_for(transport, rng.choice(["thread", "thread", "main_thread_only", "gevent"]) if rng else "thread")
    actors = [{"side": "i", "gw": gwi, "chan": None, "ops": []}]
    main = actors[0]["ops"]
    W = {"side": "w", "gw": gwi, "chan": "c0", "ops": []}
    actors.append(W)
    main.append(["exec", "c0", 1, gwi])
    dying, surv = ("w", "i") if direction == "w2i" else ("i", "w")
    d_ops = W["ops"] if dying == "w" else main
    s_ops = main if dying == "w" else W["ops"]
    # channel transfer
    for c in wl["chans"][1:]:
        d_ops.append(["newchan", c["label"]])
        d_ops.append(["sendchan", "c0", c["label"], f"c0:{direction}:x:chan-{c['label']}", "list"])
        s_ops.append(["recvchan", "c0", c["label"]])
    # observers on the survivor
    observers = []
    obs_kind = {}

    def new_obs(label, ops, kind):
        actors.append({"side": surv, "gw": gwi, "chan": "c0", "ops": ops})
        observers.append(len(actors) - 1)
        obs_kind[len(actors) - 1] = (label, kind)

    gwprobes = [["gwjoin", 5.0], ["hasreceiver"], ["waitclose", None, 5.0], ["send", None, "probe", ["none"]],
                ["newchan", "zz"], ["exec_src", "zz2", "pass", gwi]] if surv == "i" else [["send", None, "probe", ["none"]]]

    def probes(label, with_recv=True):
        out = [["send", label, "probe0", ["none"]]]  # before the gateway is known to have stopped: ok or OSError
        if with_recv:
            out.append(["recv", label])
        if surv == "i":
            # a channel obtained after the loss was observed (if it is handed out at all) must not hang either
            out += [["newchan", f"late-{label}"], ["recv", f"late-{label}"]]
        for p in gwprobes:
            p = list(p)
            if p[0] in ("send", "waitclose"):
                p[1] = label
            out.append(p)
        return out

    for c in wl["chans"]:
        lab, kind = c["label"], c["kind"]
        if kind in ("recv1", "recv2"):
            new_obs(lab, [["drain", lab]] + probes(lab), "drain")
            if kind == "recv2":
                new_obs(lab, [["drain", lab], ["recv", lab]], "drain")
        elif kind == "cb":
            new_obs(lab, [["setcb", lab, True, None, None, None, f"end-{lab}"], ["latch_wait", f"end-{lab}", 100.0]]
                    + probes(lab, with_recv=False), "cb")
        elif kind == "cbdrop":
            # callback installed, channel object dropped: the endmarker must still arrive
            new_obs(lab, [["setcb", lab, True, None, None, None, f"end-{lab}"], ["drop", lab], ["gc"],
                          ["latch_wait", f"end-{lab}", 100.0]], "cb")
        elif kind == "selfclose":
            # the survivor closes this channel itself at some moment - possibly while the receiver thread is
            # closing everything after the connection loss
            new_obs(lab, [["yield", 3 + 7 * (wi % 5)], ["close", lab], ["waitclose", lab, 5.0], ["isclosed", lab]], "selfclose")
        elif kind == "file":
            new_obs(lab, [["mkfile_r", lab, [["read", 3], ["readline"], ["read", 7], ["readline"], ["read", 1000],
                                              ["read", 5], ["readline"]]]], "file")
        else:
            new_obs(lab, [["waitclose", lab, None]] + probes(lab), "wc")
    for aid in observers:
        s_ops.append(["spawn", aid])
    # the dying side sends everything, then lingers
    for lab, k in wl["order"]:
        c = [c for c in wl["chans"] if c["label"] == lab][0]
        size = c["sizes"][k]
        if c["kind"] == "file":
            text = ("line%d\n" % k) * (size // 6 + 1)
            d_ops.append(["send_raw", lab, text[:max(size, 1)]])
        else:
            d_ops.append(["send", lab, f"{lab}:{direction}:d:{k}", ["bytes", size]])
    d_ops.append(["sleep", 50.0])
    for aid in observers:
        s_ops.append(["join", aid, 300.0])
    if surv == "i":
        main.append(["terminate", 2.0])
    case = {"gateways": specs, "actors": actors,
            "knobs": {"pipe_cap": rng.choice([64, 4096, 65536]) if rng else 65536,
                      "sock_cap": rng.choice([64, 4096, 65536]) if rng else 65536,
                      "chunk": rng.choice(["greedy", "random", "one"]) if rng else "greedy"},
            "strategy": L.gen_strategy(rng) if rng else {"kind": "default"},
            "preempt": [], "preempt_at": L.gen_preempt_at(rng, ["_thread_receiver", "_finished_receiving", "_local_close",
                                                                 "receive", "_send", "setcallback", "read", "from_io",
                                                                 "values", "values", "channels", "new", "__repr__",
                                                                 "__iter__", "__iter__", "close", "_no_longer_opened", "pop"],
                                                          maxn=80, p=0.4) if rng else [],
            "faults": [], "transport": transport, "dir": direction, "wi": wi, "gwi": gwi,
            "observers": observers, "obs_kind": {str(k): val for k, val in obs_kind.items()},
            "surv": surv, "fault": list(fault) if fault else None, "mode": "cut"}
    pipe = cut_pipe_suffix(transport, direction)
    victim = "w1" if dying == "w" else "init"
    if transport == "socket" and dying == "w":
        victim = "w1"  # the socket 'worker' lives inside the installvia worker process
    if fault and fault[0] == "cut":
        case["faults"] = [{"at": ["byte", pipe, fault[1]], "do": ["kill", victim]}]
    elif fault and fault[0] == "kill_rstep":
        case["faults"] = [{"at": ["rstep", fault[1]], "do": ["kill", victim]}]
    return case


def cut_pipe_suffix(transport, direction):
    if transport == "socket":
        return ".s2c" if direction == "w2i" else ".c2s"
    return "w1.out" if direction == "w2i" else "w1.in"


_LCACHE = {}


def transcript_len(wi, transport, direction):
    key = (wi, transport, direction)
    if key not in _LCACHE:
        case = build_case(wi, transport, direction, None, None)
        res = gwsim.run_case(case, Chooser(replay=[]), max_steps=300_000)
        pipe = [p for n, p in res.pipes.items() if n.endswith(cut_pipe_suffix(transport, direction))][-1]
        data = bytes(pipe.wire)
        boot = wire.skip_bootstrap(data, "from_worker" if direction == "w2i" else "to_worker")
        _LCACHE[key] = (boot, pipe.total)
    return _LCACHE[key]


_SPACE = None


def space():
    """List of (wi, transport, direction, first_n, last_n) and the total number of cut points."""
    global _SPACE
    if _SPACE is None:
        rows = []
        total = 0
        for wi in range(NWORK):
            for t in TRANSPORTS:
                for d in DIRS:
                    boot, ln = transcript_len(wi, t, d)
                    first = 0 if d == "w2i" else boot  # initiator death before the bootstrap line is consumed: excluded
                    rows.append((wi, t, d, first, ln))
                    total += ln - first + 1
        _SPACE = (rows, total)
    return _SPACE


def prepare(tier):
    if tier == "thorough":
        space()


def gen_indexed(idx, rng, tier):
    if tier == "thorough":
        rows, total = space()
        if idx < total:
            # exhaustive phase: idx -> (row, n)
            k = idx
            for wi, t, d, first, last in rows:
                cnt = last - first + 1
                if k < cnt:
                    c = build_case(wi, t, d, rng, ("cut", first + k))
                    c["enumerated"] = True
                    return c
                k -= cnt
    return gen(rng, tier)


def gen(rng, tier):
    r = rng.random()
    if r < 0.12:
        return gen_proxy(rng, tier)
    wi = rng.randrange(NWORK)
    t = rng.choice(TRANSPORTS)
    d = rng.choice(DIRS)
    if r < 0.3:
        return build_case(wi, t, d, rng, ("kill_rstep", rng.randrange(1, 700)))
    boot, ln = transcript_len(wi, t, d)
    first = 0 if d == "w2i" else boot
    # bias towards offsets after the bootstrap
    n = rng.randrange(first, ln + 1) if rng.random() < 0.15 else rng.randrange(max(first, boot), ln + 1)
    return build_case(wi, t, d, rng, ("cut", n))


def gen_proxy(rng, tier):
    """(iv) proxied gateway: death of the sub or of the forwarder at a generated moment."""
    specs, gwi = L.gateways_for("proxy", rng.choice(["thread", "gevent"]))
    actors = [{"side": "i", "gw": gwi, "chan": None, "ops": []}]
    main = actors[0]["ops"]
    k = rng.randrange(0, 5)
    W = {"side": "w", "gw": gwi, "chan": "c0",
         "ops": [["send", "c0", f"c0:w2i:d:{j}", ["bytes", rng.choice([0, 5, 300])]] for j in range(k)] + [["sleep", 50.0]]}
    actors.append(W)
    main.append(["exec", "c0", 1, gwi])
    obs = {"side": "i", "gw": gwi, "chan": "c0",
           "ops": [["drain", "c0"], ["send", "c0", "probe0", ["none"]], ["recv", "c0"], ["gwjoin", 5.0], ["hasreceiver"],
                   ["waitclose", "c0", 5.0],
                   ["send", "c0", "probe", ["none"]], ["newchan", "zz"], ["exec_src", "zz2", "pass", gwi]]}
    actors.append(obs)
    main += [["spawn", 2], ["join", 2, 300.0]]
    victim = rng.choice(["w2", "w1"])  # sub / forwarder
    return {"gateways": specs, "actors": actors,
            "knobs": {"pipe_cap": rng.choice([4096, 65536]), "sock_cap": 65536, "chunk": rng.choice(["greedy", "random"])},
            "strategy": L.gen_strategy(rng), "preempt": [], "preempt_at": [],
            "faults": [{"at": ["rstep", rng.randrange(1, 500)], "do": ["kill", victim]}],
            "transport": "proxy", "dir": "w2i", "wi": -1, "gwi": gwi, "observers": [2],
            "obs_kind": {"2": ("c0", "drain")}, "surv": "i", "fault": ["kill_proxy", victim], "mode": "proxy"}


def shrink_cases(case):
    if case.get("preempt_at"):
        c = dict(case)
        c["preempt_at"] = []
        yield c
    k = case["knobs"]
    if k.get("chunk") != "greedy" or k.get("pipe_cap") != 65536:
        c = dict(case)
        c["knobs"] = dict(k, chunk="greedy", pipe_cap=65536, sock_cap=65536)
        yield c


# ---------------------------------------------------------------------------
# execution + oracle
# ---------------------------------------------------------------------------


def execute(case, chooser):
    res = gwsim.run_case(case, chooser, max_steps=300_000)
    gwsim.check_harness(res)
    hist = L.Hist(res)
    fired = bool(res.fault_log)
    V = oracle(case, res, hist, fired)
    sample = None
    if chooser.rng is not None and chooser.rng.random() < 0.003:
        sample = {k: case.get(k) for k in ("mode", "transport", "dir", "wi", "fault", "knobs", "strategy", "preempt_at")}
        if case["wi"] >= 0:
            sample["workload"] = WORKLOADS[case["wi"]]
        sample["fault_log"] = [list(map(str, f)) for f in res.fault_log]
    feats = {(case["mode"], case["transport"], case["dir"], case["wi"])}
    out = gwsim.summarize(res, chooser, nontrivial=fired, feats=feats, sample=sample, violations=V)
    if case.get("enumerated"):
        out["stats"]["enumerated-cut-point"] = 1
    return out


def decode_str_payload(payload):
    """Independent decoder for the one payload shape the file channel uses: PY3STRING + STOP."""
    if len(payload) >= 6 and payload[:1] == b"N" and payload[-1:] == b"Q":
        (ln,) = struct.unpack("!i", payload[1:5])
        if ln == len(payload) - 6:
            return payload[5:-1].decode("utf-8")
    return None


def oracle(case, res, hist, fired):
    key0 = f"{case['dir']};{case['transport']}"
    allow = {("*", "EOFError"), ("*", "OSError"), ("waitclose", "TimeoutError"), ("sleep", "KeyboardInterrupt"), ("join", "KeyboardInterrupt"),
             ("recv", "KeyboardInterrupt"), ("drain", "KeyboardInterrupt")}
    V = []
    if res.setup_error is not None:
        # a cut/kill during the handshake: makegateway must raise EOFError/OSError (it did not hang: we are here)
        if res.setup_error[1] not in ("EOFError", "OSError", "BrokenPipeError", "ConnectionResetError", "HostNotFound"):
            V.append(v("makegateway-raised-other", f"{key0};{res.setup_error[1]}", res.setup_error[2]))
        gen_v = [x for x in L.generic_rules(res, hist, allow_exc=allow, key=key0) if x["rule"] not in ("setup-failed",)]
        return V + gen_v
    gen_v = L.generic_rules(res, hist, allow_exc=allow, key=key0)
    if not fired:
        # the connection was never lost (cut offset beyond what this schedule wrote): survivors may wait forever
        return V + [x for x in gen_v if x["rule"] != "blocked-forever"]
    V += gen_v
    ids = hist.chan_ids()
    # ground truth: complete frames among the bytes the kernel accepted from the dying side
    if case["mode"] == "cut" or case["mode"] == "proxy":
        if case["mode"] == "proxy":
            tw, fw = L.target_pipes(res)
            pipe = fw
        else:
            suffix = cut_pipe_suffix(case["transport"], case["dir"])
            cands = [p for n, p in res.pipes.items() if n.endswith(suffix)]
            pipe = cands[-1] if cands else None
    if pipe is None:
        return V
    data = bytes(pipe.wire)
    start = wire.skip_bootstrap(data, "from_worker" if case["dir"] == "w2i" else "to_worker")
    frames, end, bad = wire.parse_frames(data, start)
    by_chan_tokens = wire.data_tokens_by_channel(frames)
    by_chan_payload = {}
    closed_by_frame = set()
    for off, code, chan, payload in frames:
        if code == wire.CHANNEL_DATA:
            by_chan_payload.setdefault(chan, []).append(payload)
        elif code in (wire.CHANNEL_CLOSE, wire.CHANNEL_CLOSE_ERROR, wire.CHANNEL_LAST_MESSAGE):
            closed_by_frame.add(chan)
    proxy_forwarder_died = case["mode"] == "proxy" and case["fault"][1] == "w1"
    pops = {}
    for seq, q, tok in res.sched.poplog:
        pops.setdefault(tok, seq)
    # per channel: collect what the survivor's observers obtained
    per_label = {}
    for aid in case["observers"]:
        label, kind = case["obs_kind"][str(aid)]
        ops = case["actors"][aid]["ops"]
        if hist.inv.get((aid, 0)) is None:
            continue  # never started (its channel never arrived / survivor died)
        r0 = hist.ret.get((aid, 0))
        if r0 is not None and r0[1][0] == "exc" and r0[1][1] == "NoChannel":
            continue
        ent = per_label.setdefault(label, {"items": [], "eof": 0, "ends": 0, "file": None, "kind": kind})
        if kind == "drain":
            for seq, d in hist.sub.get((aid, 0), ()):
                if d[0] == "item":
                    ent["items"].append((pops.get(d[1], seq), d[1]))
                elif d[0] == "eof":
                    ent["eof"] += 1
        elif kind == "cb":
            for seq, d in hist.cb.get((aid, 0), ()):
                if d[0] == "item":
                    ent["items"].append((seq, d[1]))
                elif d[0] == "end":
                    ent["ends"] += 1
            ent["cb_done"] = hist.ret.get((aid, 1))
        elif kind == "file":
            outs = [d for seq, d in hist.sub.get((aid, 0), ()) if d[0] == "fileout"]
            ent["file"] = outs
            ent["file_ret"] = r0
        # probes (gateway-level ones are judged only if the connection was lost before gw.join() was called:
        # an observer may also have seen an ordinary close that was complete on the wire before the cut)
        joined = False
        wc_after_join = ent.setdefault("wc_ok_after_join", [])
        fault_seq = res.fault_log[0][0] if res.fault_log else None
        for oi, op in enumerate(ops[1:], 1):
            r = hist.ret.get((aid, oi))
            if r is None:
                continue
            rr = r[1]
            if op[0] == "gwjoin":
                inv_seq = hist.inv[(aid, oi)][0]
                joined = rr[0] == "ok" and fault_seq is not None and fault_seq < inv_seq
            elif op[0] == "recv" and kind in ("drain", "wc"):
                if rr[0] == "item" and kind == "drain":  # (after waitclose the queue may still hold items)
                    V.append(v("item-after-eof", key0, f"observer {aid} got {rr[1]} after the end was observed"))
                elif rr[0] == "exc" and rr[1] not in ("EOFError", "NoChannel"):
                    V.append(v("eof-not-repeated", f"{key0};{rr[1]}", f"{rr}"))
            elif op[0] == "hasreceiver" and joined:
                if rr != ("val", False):
                    V.append(v("still-receiving-after-join", key0, f"hasreceiver() -> {rr} after gw.join() returned"))
            elif op[0] in ("send", "newchan", "exec_src"):
                if rr[0] == "exc" and rr[1] not in ("OSError",):
                    V.append(v("probe-raised-other", f"{key0};{op[0]};{rr[1]}", f"{rr}"))
                elif joined and rr[0] != "exc":
                    V.append(v("accepted-after-gateway-stopped", f"{key0};{op[0]}",
                               f"observer {aid}: {op[0]} succeeded after gw.join() returned and hasreceiver() was false"))
            elif op[0] == "waitclose" and rr[0] == "exc" and rr[1] not in ("EOFError", "NoChannel") and (
                    joined or rr[1] != "TimeoutError"):
                V.append(v("waitclose-raised-other", f"{key0};{rr[1]}", f"{rr}"))
            elif op[0] == "waitclose" and rr[0] == "ok" and joined:
                wc_after_join.append((aid, label))
    surv_alive = True
    for label, ent in per_label.items():
        chid = ids.get(label)
        if chid is None:
            continue
        W = [t for t in by_chan_tokens.get(chid, []) if t and "chan-" not in t]
        if ent.get("wc_ok_after_join") and chid not in closed_by_frame and not proxy_forwarder_died:
            # the connection was lost, the gateway has stopped receiving, no close frame for this channel ever
            # arrived: waitclose must report the loss (EOFError), not return as if the channel had ended normally
            V.append(v("waitclose-silent-after-connection-loss", key0,
                       f"{label}: waitclose() returned normally although the connection broke without a close frame"))
        if ent["kind"] == "selfclose":
            continue
        if ent["kind"] == "file":
            exp_text = "".join(x for x in (decode_str_payload(p) for p in by_chan_payload.get(chid, [])) if x is not None)
            ref = io.StringIO(exp_text)
            calls = [c for c in case["actors"][[a for a in case["observers"] if case["obs_kind"][str(a)][0] == label][0]]["ops"][0][2]]
            exp = [ref.read(c[1]) if c[0] == "read" else ref.readline() for c in calls]
            got = [o[2] for o in (ent["file"] or [])]
            if ent.get("file_ret") is not None and ent["file_ret"][1][0] == "ok":
                # reads block until enough data or the end: with the connection lost they must all return
                if got != exp:
                    V.append(v("file-model-mismatch", key0, f"channel {label}: got {got!r} expected {exp!r}"))
            continue
        ent["items"].sort()
        D = [t for _, t in ent["items"]]
        if len(set(D)) != len(D):
            V.append(v("dup-item", key0, f"{label}: {D}"))
        if D != W[:len(D)]:
            V.append(v("corrupt-or-reordered", key0, f"{label}: delivered {D}, complete frames on the wire {W}"))
        ended = ent["eof"] > 0 or ent["ends"] > 0
        if ended and len(D) < len(W) and not proxy_forwarder_died:
            V.append(v("complete-item-lost", key0, f"{label}: delivered {D} then the end, complete frames on the wire {W}"))
        if ent["kind"] == "cb":
            if ent["ends"] > 1:
                V.append(v("endmarker-count", f"{key0};n=2+", f"{label}: {ent['ends']}"))
            if ent["ends"] == 0 and ent.get("cb_done") is not None:
                # the run went on until nothing could happen any more: the endmarker is lost for good
                V.append(v("endmarker-never-delivered", key0, f"{label}: connection lost, endmarker never delivered"))
    return V


def extra(tier, seed, agg):
    rows, total = space()
    done = agg["stats"].get("enumerated-cut-point", 0)
    cov = {
        "enumeration_space": {"workloads": NWORK, "transports": TRANSPORTS, "directions": DIRS,
                              "cut_points_total": total,
                              "transcript_lengths": {f"w{wi}/{t}/{d}": [first, last] for wi, t, d, first, last in rows}},
        "enumerated_cut_points": done,
        "enumeration_complete": bool(tier == "thorough" and done >= total),
        "exhaustive": bool(tier == "thorough" and done >= total),
        "explanation": "thorough runs visit every cut offset of every (workload, transport, direction) once (one "
                       "schedule each) before sampling; 'exhaustive' refers to the cut offsets of this workload family, "
                       "not to schedules",
    }
    return cov, []
