"""C05 - Group.terminate(timeout) returns promptly and leaves no local child behind.

Real Group with 1-3 member gateways over popen / via (proxied) / socket topologies; every worker runs a generated
program (idle, blocked in receive, busy, sleeping, swallowing KeyboardInterrupt, extra threads); signals
(SIGSTOP / SIGKILL / SIGINT) are injected before terminate; optionally a user task is blocked in send towards a
stopped worker; plus makegateway calls that fail (taken id, unknown via, missing interpreter, unreachable ssh host,
worker dying during bootstrap).
"""

from __future__ import annotations

from vsim import gwsim

from . import chanlib as L
from .chanlib import v

PROP = "C05"
LEVEL = "exploration"
BUDGET = {
    "quick": {"budget_s": 45, "chunk": 80, "shrink_s": 40},
    "thorough": {"budget_s": 900, "chunk": 200, "shrink_s": 120},
}
RULE = (
    "cases: topology (1-3 popen members | popen master + 1-2 via subs | popen master + socket member) x worker program "
    "per member (idle, receive-blocked, busy, sleeping, KeyboardInterrupt-swallowing (optionally ignoring SIGTERM too), extra threads; optionally an interpreter that outlives its closed connection and ends only by the kill) x worker backend x members exit()ed by the program beforehand x "
    "signals before terminate (SIGSTOP/SIGKILL/SIGINT per process) x optional blocked sender x timeout in {0.1, 1, 5}; "
    "and failing makegateway calls (id taken, unknown via, missing interpreter, unreachable ssh host, death in bootstrap, failure in the chdir/nice/env step, four racing calls for one id).  Children must have exited when terminate returns.  Non-trivial = terminate was called with at least one member under a schedule with "
    "real choices; distinct = distinct event-log digests."
)
ASSUMPTIONS = [
    "the bound checked is 2*T*(N + P) + 1 simulated seconds for N members and P exit passes (P = 1 + via nesting depth), "
    "derived from safe_terminate's documented 'term timeout plus a kill attempt' per pass",
    "local child = a process started by the initiator's own Popen; proxied subs are the forwarder's children (C11)",
    "a busy remote program is modelled as a loop of 50 ms sleeps (interruptible at every iteration)",
]
COMPONENTS = {
    "real": ["multi.Group.terminate / makegateway / allocate_id / _register", "multi.safe_terminate", "Gateway.exit",
             "Popen2IOMaster.wait/kill", "ProxyIO.wait/kill/close_write", "WorkerGateway._terminate_execution ladder"],
    "stub": ["process table, signals (SIGSTOP/SIGCONT/SIGKILL/SIGINT), pipes, clock (vsim)"],
}

PROGRAMS = ["idle", "recv", "busy", "sleep", "swallow", "threads"]


def prog_ops(rng, kind, label, actors, gwi, linger_ok=False):
    """ops of the remote body for one worker; first op announces that the body runs"""
    ops = [["send", label, f"{label}:w2i:x:started", ["none"]]]
    if linger_ok and rng.random() < 0.15:
        # the interpreter will not exit by itself once the connection is closed (non-daemon thread, atexit handler)
        ops.insert(0, ["linger", 10000.0])
    if kind == "recv":
        ops.append(["recv", label])
    elif kind == "busy":
        ops.append(["busy", None])
    elif kind == "sleep":
        ops.append(["sleep", 1000.0])
    elif kind == "swallow":
        if rng.random() < 0.5:
            ops.append(["sig_ignore_term"])  # ... and ignores SIGTERM as well: only SIGKILL helps
        ops.append(["swallow_busy"])
    elif kind == "threads":
        sub = [["busy", None]] if rng.random() < 0.5 else [["sleep", 1000.0]]
        actors.append({"side": "w", "gw": gwi, "chan": label, "ops": sub})
        ops.append(["spawn", len(actors) - 1])
        ops.append(rng.choice([["sleep", 1000.0], ["recv", label]]))
    return ops


def gen(rng, tier):
    if rng.random() < 0.18:
        return gen_failing(rng, tier)
    topo = rng.choices(["popen", "via", "socket"], [50, 30, 20])[0]
    T = rng.choice([0.1, 1.0, 5.0])
    specs = []
    members = []  # (gw index, process name, role)
    if topo == "popen":
        n = rng.choice([1, 2, 3])
        for i in range(n):
            be = rng.choice(["thread", "thread", "main_thread_only", "gevent"])
            bare = rng.random() < 0.15
            specs.append((f"popen//python=/sim/bare-python3//id=p{i}//execmodel={be}" if bare
                          else f"popen//id=p{i}//execmodel={be}"))
            members.append((i, f"w{i + 1}", "member"))
        depth = 0
    elif topo == "via":
        be = rng.choice(["thread", "gevent"])
        specs.append(f"popen//id=m//execmodel={be}")
        members.append((0, "w1", "master"))
        nsub = rng.choice([1, 1, 2])
        for i in range(nsub):
            be2 = rng.choice(["thread", "main_thread_only", "gevent"])
            specs.append(f"popen//via=m//id=s{i}//execmodel={be2}")
            members.append((1 + i, f"w{i + 2}", "sub"))
        depth = 1
    else:
        specs.append("popen//id=m//execmodel=thread")
        members.append((0, "w1", "master"))
        be2 = rng.choice(["thread", "main_thread_only", "gevent"])
        specs.append(f"socket//installvia=m//id=k//execmodel={be2}")
        members.append((1, "w1", "socket"))
        depth = 0
    actors = [{"side": "i", "gw": 0, "chan": None, "ops": []}]
    main = actors[0]["ops"]
    progs = {}
    for gi, pname, role in members:
        if role == "master":
            kind = rng.choice(["idle", "idle", "sleep", "recv"]) if topo == "via" else "idle"
            if topo == "socket":
                kind = "idle"  # its main thread... the socket server body occupies a pool thread only
        else:
            kind = rng.choice(PROGRAMS)
        progs[gi] = kind
        if kind == "idle":
            continue
        label = f"c{gi}"
        aid = len(actors)
        actors.append({"side": "w", "gw": gi, "chan": label, "ops": []})
        actors[aid]["ops"] = prog_ops(rng, kind, label, actors, gi, linger_ok=True)
        main.append(["exec", label, aid, gi])
        main.append(["recv", label])
    # optional: a user task blocked in send to a worker that gets stopped
    blocked_sender = False
    faults_desc = {}
    sig_ops = []
    for gi, pname, role in members:
        if role == "socket":
            continue
        r = rng.random()
        if r < 0.2:
            sig_ops.append(["signal", pname, "stop"])
            faults_desc[pname] = "stop"
        elif r < 0.32:
            sig_ops.append(["signal", pname, "kill"])
            faults_desc[pname] = "kill"
        elif r < 0.42:
            sig_ops.append(["signal", pname, "int"])
            faults_desc[pname] = "int"
    knobs = {"pipe_cap": rng.choice([4096, 65536]), "sock_cap": 65536, "chunk": rng.choice(["greedy", "random"])}
    stopped = [p for p, f in faults_desc.items() if f == "stop"]
    if stopped and rng.random() < 0.3 and topo == "popen":
        # a sender task fills the pipe of a stopped worker and blocks inside write()
        pname = stopped[0]
        gi = [g for g, p, r in members if p == pname][0]
        if progs[gi] != "idle":
            aid = len(actors)
            actors.append({"side": "i", "gw": gi, "chan": f"c{gi}",
                           "ops": [["send", f"c{gi}", f"c{gi}:i2w:{aid}:{k}", ["bytes", 3000]] for k in range(6)]})
            knobs["pipe_cap"] = 4096
            blocked_sender = True
            sig_ops.append(["spawn", aid])
            sig_ops.append(["sleep", 0.5])
    main += sig_ops
    # the user may have exit()ed some (non-via-master) members himself before calling terminate
    pre_exited = []
    if len(members) >= 2 and rng.random() < 0.3:
        cand = [gi for gi, pname, role in members if role in ("member", "sub")]
        if cand:
            gi = rng.choice(cand)
            main.append(["gwexit", gi])
            pre_exited.append(gi)
    if rng.random() < 0.3:
        main.append(["sleep", rng.choice([0.01, 0.5, 7.0])])
    main.append(["terminate", T])
    main.append(["grouplen"])
    for a in actors:
        # a lingering interpreter is terminate()'s business only where it is a local child of a member at that time
        if a["ops"] and a["ops"][0][0] == "linger" and (topo != "popen" or a["gw"] in pre_exited):
            del a["ops"][0]
    return {"gateways": specs, "actors": actors, "knobs": knobs, "strategy": L.gen_strategy(rng),
            "preempt": [], "preempt_at": L.gen_preempt_at(rng, ["terminate", "exit", "safe_terminate", "termkill",
                                                                 "join_wait", "kill", "_terminate_execution", "serve"],
                                                          maxn=30, p=0.3),
            "faults": [], "mode": "terminate", "topo": topo, "T": T, "members": members, "progs": {str(k): val for k, val in progs.items()},
            "fault_desc": faults_desc, "blocked_sender": blocked_sender, "depth": depth, "pre_exited": pre_exited}


def gen_failing(rng, tier):
    """makegateway calls that fail must leave no process behind (after the group was terminated)."""
    why = rng.choice(["id-taken-auto", "id-taken-explicit", "unknown-via", "missing-python", "ssh-nohost",
                      "dies-in-bootstrap", "config-nice-invalid", "config-chdir-fails", "id-race"])
    actors = [{"side": "i", "gw": 0, "chan": None, "ops": []}]
    main = actors[0]["ops"]
    specs = []
    faults = []
    if why == "id-taken-auto":
        specs = ["popen"]  # becomes gw0
        main.append(["makegateway", "popen//id=gw0"])
    elif why == "id-taken-explicit":
        specs = ["popen//id=a"]
        main.append(["makegateway", rng.choice(["popen//id=a", "popen//id=a//python=/sim/bare-python3"])])
    elif why == "unknown-via":
        specs = ["popen//id=a"]
        main.append(["makegateway", "popen//via=nosuch//id=b"])
    elif why == "missing-python":
        specs = ["popen//id=a"]
        main.append(["makegateway", "popen//python=/sim/missing-python//id=b"])
    elif why == "ssh-nohost":
        specs = ["popen//id=a"]
        main.append(["makegateway", "ssh=nohost.invalid//id=b"])
    elif why == "id-race":
        # three tasks ask for the same explicit id at the same time (one of them twice): exactly the calls that
        # are refused must not leave a worker behind, whatever the interleaving
        specs = ["popen//id=a"]
        for t in range(2):
            actors.append({"side": "i", "gw": 0, "chan": None,
                           "ops": [["makegateway", "popen//id=b"]] * (2 if t == 0 else 1) + [["yield", rng.randrange(0, 4)]]})
            main.append(["spawn", len(actors) - 1])
        main.append(["makegateway", "popen//id=b"])
        main.append(["join", 1, 600])
        main.append(["join", 2, 600])
    elif why == "config-nice-invalid":
        # fails after the worker was started and bootstrapped: int('high') in the chdir/nice/env step
        specs = ["popen//id=a"]
        main.append(["makegateway", "popen//id=b//nice=high"])
    elif why == "config-chdir-fails":
        # the remote configuration step raises (mkdir below a non-directory): RemoteError from makegateway
        specs = ["popen//id=a"]
        main.append(["makegateway", "popen//id=b//chdir=/dev/null/vsim-sub"])
    else:
        specs = ["popen//id=a"]
        main.append(["makegateway", rng.choice(["popen//id=b", "popen//python=/sim/bare-python3//id=b"])])
        # kill the new worker somewhere inside its bootstrap
        faults.append({"at": ["rstep", rng.randrange(1, 120)], "do": ["kill", "w2"]})
    main.append(["sleep", 1.0])
    main.append(["terminate", 1.0])
    main.append(["grouplen"])
    return {"gateways": specs, "actors": actors,
            "knobs": {"pipe_cap": rng.choice([4096, 65536]), "sock_cap": 65536, "chunk": "greedy"},
            "strategy": L.gen_strategy(rng), "preempt": [],
            "preempt_at": L.gen_preempt_at(rng, ["makegateway", "allocate_id", "_register"], maxn=30, p=0.6) if why == "id-race" else [],
            "faults": faults, "mode": "failing",
            "why": why, "topo": "popen", "T": 1.0, "members": [(0, "w1", "member")], "progs": {}, "fault_desc": {},
            "blocked_sender": False, "depth": 0}


def shrink_cases(case):
    if case.get("preempt_at"):
        c = dict(case)
        c["preempt_at"] = []
        yield c


def execute(case, chooser):
    res = gwsim.run_case(case, chooser, max_steps=300_000, max_time=400.0)
    gwsim.check_harness(res, allow_reasons=("quiescent", "time-cap"))
    hist = L.Hist(res)
    V = oracle(case, res, hist)
    V += gwsim.livelock_violation(res, case["topo"])
    called = any(True for _ in hist.ops(("terminate",)))
    sample = None
    if chooser.rng is not None and chooser.rng.random() < 0.004:
        sample = {k: case.get(k) for k in ("mode", "topo", "T", "gateways", "progs", "fault_desc", "blocked_sender",
                                           "why", "knobs", "strategy")}
        sample["main_ops"] = [o[:3] for o in case["actors"][0]["ops"]]
        sample["procs"] = {n: (p["alive"], p["status"], p["exit_time"]) for n, p in res.procs.items()}
    feats = {(case["mode"], case["topo"], case["T"], tuple(sorted(case["progs"].values())),
              tuple(sorted(case["fault_desc"].items())), case.get("why"))}
    return gwsim.summarize(res, chooser, nontrivial=called and len(chooser.trace) > 0, feats=feats, sample=sample,
                           violations=V)


def oracle(case, res, hist):
    V = []
    fd = case["fault_desc"]
    master_state = "ok"
    if case["topo"] == "via":
        # (SIGINT makes an idle worker leave serve() and exit: same as dead for its subs)
        master_state = {"stop": "stopped", "kill": "dead", "int": "dead-or-interrupted"}.get(fd.get("w1"), "ok")
    ctxkey = f"{case['topo']};master={master_state};sender={int(case['blocked_sender'])}"
    never_quiet = res.reason == "time-cap"
    # crashes of non-worker threads on the initiator
    for name, p in sorted(res.procs.items()):
        if name != "init":
            continue
        for tname, tb in p["crashes"]:
            V.append(v("initiator-thread-crash", ctxkey, tb[-400:]))
    if res.setup_error is not None and case["mode"] == "terminate":
        # setup faults are not injected here: gateways must come up
        V.append(v("setup-failed", res.setup_error[1], res.setup_error[2]))
        return V
    term = [(aid, oi, op, s1, s2, r) for aid, oi, op, s1, s2, r in hist.ops(("terminate",))]
    pre = [(op, r) for aid, oi, op, s1, s2, r in hist.ops(("gwexit",))]
    if pre and pre[0][1] is None:
        # the user's own gateway.exit() never returned (it is the first half of what terminate() does)
        V.append(v("terminate-blocked", ctxkey, f"gateway.exit() before terminate never returned; blocked ops: {res.blocked[:3]}"))
        never_quiet = False
    if term:
        aid, oi, op, s1, s2, r = term[0]
        T = op[1]
        if r is None:
            V.append(v("terminate-blocked", ctxkey, f"terminate({T}) never returned; blocked ops: {res.blocked[:3]}"))
            never_quiet = False  # consequence of the same cause
        elif r[0] == "exc":
            V.append(v("terminate-raised", f"{ctxkey};{r[1]}", f"terminate({T}) raised {r[1]}: {r[2][:200]}"))
        else:
            n = len(case["members"])
            bound = 2 * T * (n + 1 + case["depth"]) + 1.0
            if case["topo"] == "popen" and not case["blocked_sender"]:
                # local members are joined and killed in parallel: one timeout plus the kills, whatever their number
                bound = 2 * T + 1.0
            dur = r[3] - r[2]
            if dur > bound + 1e-9:
                V.append(v("terminate-late", ctxkey, f"terminate({T}) took {dur:.2f} simulated s, bound {bound:.2f} "
                                                    f"({n} members)"))
            if r[1] != 0:
                V.append(v("group-not-empty", ctxkey, f"len(group) == {r[1]} after terminate"))
            # every local child has exited - already when terminate() returns (it waits for / kills them)
            for name in (r[4] if len(r) > 4 else ()):
                if res.procs.get(name, {}).get("alive"):
                    continue  # reported below with more context
                gi = [g for g, pn, role in case["members"] if pn == name]
                prog = case["progs"].get(str(gi[0])) if gi else "?"
                V.append(v("child-alive-at-return", f"{ctxkey};prog={prog};fault={fd.get(name)}",
                           f"local child {name} had not exited yet when terminate({T}) returned"))
            for name, p in sorted(res.procs.items()):
                if p["parent"] == "init" and p["alive"]:
                    if case["mode"] == "failing":
                        V.append(v("orphan-after-failed-makegateway", case["why"],
                                   f"{name} (created by the failing makegateway) is still alive after terminate + quiescence"))
                    else:
                        gi = [g for g, pn, role in case["members"] if pn == name]
                        prog = case["progs"].get(str(gi[0])) if gi else "?"
                        V.append(v("child-alive", f"{ctxkey};prog={prog};fault={fd.get(name)}",
                                   f"local child {name} still alive after terminate({T}) returned"))
    if case["mode"] == "failing":
        mk = [(aid, oi, op, s1, s2, r) for aid, oi, op, s1, s2, r in hist.ops(("makegateway",))]
        for aid, oi, op, s1, s2, r in mk:
            if r is None:
                V.append(v("makegateway-blocked", case["why"], f"{op[1]} never returned"))
            elif r[0] != "exc" and case["why"] not in ("dies-in-bootstrap", "id-race"):
                V.append(v("makegateway-did-not-fail", case["why"], f"{op[1]} -> {r}"))
    if never_quiet:
        V.append(v("never-quiescent", ctxkey, "the world was still busy after 400 simulated seconds"))
    # nothing else on the initiator may hang (the blocked sender is expected to be released by the kill)
    term_blocked = any(x["rule"] == "terminate-blocked" for x in V)
    for op, blabel, pname in res.blocked:
        if term_blocked:
            break  # (the sender stuck behind the same full pipe is part of that finding)
        if pname == "init" and op[2] not in ("terminate",):
            V.append(v("blocked-forever", f"{op[2]};{ctxkey}", f"initiator actor {op[0]} op {op[1]} blocked at {blabel}"))
    return V
