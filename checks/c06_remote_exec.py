"""C06 - remote_exec runs exactly the given code with a live channel (stdio clause not decidable here).

Generated remote programs in the three forms - source string, pure function with keyword arguments, module
written to a scratch directory - with bodies made of sends, receives, an attempted channel.close() and a raise at a
generated statement; plus generated function shapes that must be rejected locally (lambda, closure, non-builtin
global, wrong first parameter, decorated wrapper) before a single byte is written to the connection.
"""

from __future__ import annotations

import importlib.util
import os
import shutil
import sys

from vsim import actors as A
from vsim import gwsim
from vsim.actors import canon, mkfill

from . import chanlib as L
from .chanlib import v

PROP = "C06"
LEVEL = "exploration"
BUDGET = {
    "quick": {"budget_s": 40, "chunk": 60, "shrink_s": 40},
    "thorough": {"budget_s": 900, "chunk": 200, "shrink_s": 120},
}
RULE = (
    "cases: form (string | function + kwargs | module) x generated body (0-4 sends, 0-2 receives, optional refused close(), "
    "optional raise at a generated statement) x kwargs of every serialisable type x signature shape (plain, positional-only channel, keyword-only, **kw) x leading blank lines of string sources x transports/backends x schedules; and "
    "invalid function shapes (lambda, closure, module-level global, imported module global, wrong first parameter, no "
    "parameter, decorated wrapper, kwargs with a source string) checked for ValueError/TypeError with an unchanged wire log.  "
    "Non-trivial = the body started (or the rejection was evaluated) under a schedule with real choices."
)
ASSUMPTIONS = [
    "the clause 'nothing written to stdout/stderr enters the protocol stream' depends on real fd redirection "
    "(init_popen_io), which is stubbed in the simulator: NOT decided here",
    "scratch modules live under /dev/shm/vsim-c06-*; removed after each run",
]
COMPONENTS = {
    "real": ["Gateway.remote_exec / _source_of_function / _find_non_builtin_globals", "Message._channel_exec",
             "WorkerGateway.executetask (compile/exec, kwargs call, auto close, _executing guard)", "geterrortext"],
    "stub": ["init_popen_io (no real fd redirection)", "kernel pipes/processes (vsim)"],
}

INVALID = ["lambda", "closure", "global", "import_global", "wrong_first", "no_param", "decorated", "kwargs_with_string",
           "global_in_default", "global_in_kwonly_default", "global_decorator_same_function", "global_in_annotation",
           "global_in_nested_def", "kwonly_channel", "kwonly_channel_and_arg", "varargs_named_channel",
           "varkw_named_channel", "channel_second"]


def gen_body(rng, label, form):
    """-> (lines of the body, index of the raising line or None, expected sends, n receives, has_close)"""
    lines = ["import vsim_bridge as _b",
             "_b.note('start', %r, __name__, 'channel' in dir() or 'channel' in globals())" % label]
    sends = []
    nrecv = 0
    has_close = False
    nst = rng.randrange(1, 7)
    raise_at = rng.randrange(nst) if rng.random() < 0.4 else None
    raise_line = None
    for i in range(nst):
        if raise_at == i:
            raise_line = len(lines)
            lines.append("raise KeyError('boom-%s')" % label)
            break
        r = rng.random()
        if r < 0.5:
            tok = f"{label}:w2i:b:{len(sends)}"
            fill = L.gen_fill(rng)
            sends.append((tok, fill))
            lines.append("channel.send(('#IT:%s#', _b.mkfill(%r)))" % (tok, fill))
        elif r < 0.7:
            lines.append("_b.note('got', %r, _b.canon(channel.receive()))" % label)
            nrecv += 1
        elif r < 0.85 and not has_close:
            has_close = True
            lines.append("try:")
            lines.append("    channel.close()")
            lines.append("    _b.note('close-accepted', %r)" % label)
            lines.append("except OSError:")
            lines.append("    _b.note('close-refused', %r)" % label)
        else:
            lines.append("_b.sim_yield()")
    if raise_line is None:
        lines.append("_b.note('end', %r)" % label)
    return lines, raise_line, sends, nrecv, has_close


def gen(rng, tier):
    transport = rng.choices(["popen", "bare", "socket", "proxy"], [60, 12, 13, 15])[0]
    backend = rng.choice(["thread", "thread", "main_thread_only", "gevent"])
    specs, gwi = L.gateways_for(transport, backend)
    knobs = L.gen_knobs(rng, small_ok=False)
    n = rng.choice([1, 1, 2, 3])
    items = []
    for k in range(n):
        label = f"e{k}"
        if rng.random() < 0.3:
            items.append({"kind": "invalid", "label": label, "shape": rng.choice(INVALID)})
            continue
        form = rng.choice(["string", "function", "function", "module"])
        body, raise_line, sends, nrecv, has_close = gen_body(rng, label, form)
        peer_closed = rng.random() < 0.12
        if peer_closed:
            # the initiating side closes the channel while the body runs: the body sees the end of its input and then
            # tries to close the (already closed) channel itself - refused all the same, the code is still executing
            body = ["import vsim_bridge as _b",
                    "_b.note('start', %r, __name__, 'channel' in dir() or 'channel' in globals())" % label,
                    "try:", "    channel.receive()", "except EOFError:", "    pass",
                    "try:", "    channel.close()", "    _b.note('close-accepted', %r)" % label,
                    "except OSError:", "    _b.note('close-refused', %r)" % label,
                    "_b.note('end', %r)" % label, "_b.latch_set('end-%s')" % label]
            raise_line, sends, nrecv, has_close = None, [], 0, True
        kwargs = {}
        if form == "function":
            for j in range(rng.randrange(0, 4)):
                kwargs[f"k{j}"] = L.gen_fill(rng)
        items.append({"kind": "valid", "label": label, "form": form, "body": body, "raise_line": raise_line,
                      "sends": sends, "nrecv": nrecv, "has_close": has_close, "kwargs": kwargs, "peer_closed": peer_closed,
                      "lead": rng.randrange(0, 6), "defaults": rng.random() < 0.3, "nested": form == "function" and rng.random() < 0.2,
                      "sig": rng.choice(["plain", "plain", "posonly", "kwonly", "varkw"])})
    return {"gateways": specs, "actors": [{"side": "i", "gw": gwi, "chan": None, "ops": [["c06_script"], ["terminate", 10.0]]}],
            "knobs": knobs, "strategy": L.gen_strategy(rng), "preempt": [],
            "preempt_at": L.gen_preempt_at(rng, ["remote_exec", "executetask", "_local_schedulexec", "close", "_channel_exec"],
                                           maxn=40, p=0.3),
            "faults": [], "transport": transport, "backend": backend, "gwi": gwi, "items": items,
            "scratch": "vsim-c06-%08x" % rng.randrange(1 << 32), "errtext_limit": 6000,
            "gw_strcfg": rng.choice([None] * 7 + [[True, True], [False, True], [False, False]])}


def shrink_cases(case):
    if case.get("preempt_at"):
        c = dict(case)
        c["preempt_at"] = []
        yield c
    if len(case["items"]) > 1:
        for i in range(len(case["items"])):
            c = dict(case)
            c["items"] = case["items"][:i] + case["items"][i + 1:]
            yield c


# ---------------------------------------------------------------------------
# the script op (runs in the initiator's main actor)
# ---------------------------------------------------------------------------


def wire_total(ctx):
    # bytes the calling thread has written so far, on all pipes and sockets.  (Not the sum over all pipes of the world:
    # a via master may still be forwarding the tail of an *earlier* message to its sub; and not the whole process: its
    # receiver thread may be sending the close of an earlier, dropped channel at that moment.)
    return getattr(ctx.s.current, "bytes_written", 0)


def load_module(path, name):
    spec = importlib.util.spec_from_file_location(name, path)
    mod = importlib.util.module_from_spec(spec)
    sys.modules[name] = mod
    spec.loader.exec_module(mod)
    return mod


def write_function_module(d, name, it):
    lines = ["# generated by the C06 check"] + ["#"] * it["lead"]
    # signature shapes: plain, positional-only channel, keyword-only arguments, **kwargs catch-all
    sig = it.get("sig", "plain")
    if sig == "varkw" and it["kwargs"]:
        params = "channel, **kw"
    else:
        sep = {"plain": "", "posonly": ", /", "kwonly": ", *"}.get(sig, "")
        if sep == ", *" and not it["kwargs"]:
            sep = ""
        params = "channel" + sep + "".join(f", {k}" + ("=None" if it["defaults"] else "") for k in it["kwargs"])
    indent = "    "
    if it["nested"]:
        lines.append("def outer():")
        indent2 = "    "
    else:
        indent2 = ""
    lines.append(f"{indent2}def body({params}):")
    first_body_line = len(lines) + 1
    body = list(it["body"])
    if sig == "varkw" and it["kwargs"]:
        body.insert(2, "_b.note('kwargs', %r, {k_: _b.canon(v_) for k_, v_ in kw.items()})" % (it["label"],))
    else:
        body.insert(2, "_b.note('kwargs', %r, {%s})" % (it["label"], ", ".join(f"'{k}': _b.canon({k})" for k in it["kwargs"])))
    for b in body:
        lines.append(f"{indent2}{indent}{b}")
    if it["nested"]:
        lines.append("    return body")
        lines.append("body = outer()")
    path = os.path.join(d, name + ".py")
    with open(path, "w") as f:
        f.write("\n".join(lines) + "\n")
    raise_line = None
    if it["raise_line"] is not None:
        raise_line = first_body_line + it["raise_line"] + (1 if it["raise_line"] >= 2 else 0)
    return path, raise_line


def write_plain_module(d, name, it):
    lines = ["# generated by the C06 check"] + ["#"] * it["lead"]
    first = len(lines) + 1
    lines += it["body"]
    path = os.path.join(d, name + ".py")
    with open(path, "w") as f:
        f.write("\n".join(lines) + "\n")
    return path, (first + it["raise_line"] if it["raise_line"] is not None else None)


def invalid_callable(d, name, shape):
    src = {
        "lambda": "body = lambda channel: None\n",
        "closure": "def mk():\n    x = 1\n    def body(channel):\n        channel.send(x)\n    return body\nbody = mk()\n",
        "global": "helper = 3\ndef body(channel):\n    channel.send(helper)\n",
        "import_global": "import os\ndef body(channel):\n    channel.send(os.getpid())\n",
        "wrong_first": "def body(chan, a=1):\n    chan.send(a)\n",
        "no_param": "def body():\n    pass\n",
        "kwonly_channel": "def body(*, channel):\n    channel.send(1)\n",
        "kwonly_channel_and_arg": "def body(*, channel, n=3):\n    channel.send(n)\n",
        "varargs_named_channel": "def body(*channel):\n    channel[0].send(1)\n",
        "varkw_named_channel": "def body(**channel):\n    pass\n",
        "channel_second": "def body(a, channel):\n    channel.send(a)\n",
        "global_in_default": "LIMIT = 3\ndef body(channel, n=LIMIT):\n    channel.send(n)\n",
        "global_in_kwonly_default": "import os\ndef body(channel, *, sep=os.sep):\n    channel.send(sep)\n",
        "global_decorator_same_function": "def register(f):\n    return f\n@register\ndef body(channel):\n    channel.send(1)\n",
        "global_in_annotation": "class Chan:\n    pass\ndef body(channel: Chan):\n    channel.send(1)\n",
        "global_in_nested_def": "helper = 5\ndef body(channel):\n    def inner():\n        return helper\n    channel.send(inner())\n",
        "decorated": "import functools\ndef deco(f):\n    @functools.wraps(f)\n    def w(channel):\n        return f(channel)\n    return w\n"
                     "@deco\ndef body(channel):\n    channel.send(1)\n",
    }[shape]
    path = os.path.join(d, name + ".py")
    with open(path, "w") as f:
        f.write(src)
    return load_module(path, name).body


def c06_script(ctx, aid, oi, table, op):
    case = ctx.case
    gw = ctx.gws[case["gwi"]]
    if case.get("gw_strcfg"):
        # string coercion for user data: what remote_exec itself ships (source, names, kwargs) is not user data
        gw.reconfigure(py2str_as_py3str=case["gw_strcfg"][0], py3str_as_py2str=case["gw_strcfg"][1])
    d = os.path.join("/dev/shm", case["scratch"] + "-" + os.environ.get("VERIF_RUN_TAG", "00000000"))
    os.makedirs(d, exist_ok=True)
    created = []
    s = ctx.s
    cur = s.current
    try:
        for k, it in enumerate(case["items"]):
            label = it["label"]
            modname = f"c06m_{case['scratch'][-8:]}_{k}"
            if it["kind"] == "invalid":
                cur.notrace += 1  # file writing / importing is harness work
                try:
                    if it["shape"] == "kwargs_with_string":
                        target, kw = "channel.send(1)", {"a": 1}
                    else:
                        target, kw = invalid_callable(d, modname, it["shape"]), {}
                        created.append(modname)
                finally:
                    cur.notrace -= 1
                before = wire_total(ctx)
                nch = len(gw._channelfactory.channels()) if hasattr(gw, "_channelfactory") else -1
                try:
                    ch = gw.remote_exec(target, **kw)
                    res = ("accepted",)
                    del ch
                except (ValueError, TypeError) as e:
                    res = ("rejected", type(e).__name__)
                except Exception as e:  # noqa: BLE001
                    res = ("other", type(e).__name__, str(e)[:200])
                ctx.rec(aid, oi, "sub", ("invalid", label, it["shape"], res, wire_total(ctx) - before))
                continue
            cur.notrace += 1
            try:
                raise_line = None
                if it["form"] == "string":
                    src = "\n".join(it["body"]) + "\n"
                    if it["lead"] % 2:
                        src = "\n".join("    " + x for x in src.splitlines()) + "\n"  # indented: must be dedented
                    # leading blank / whitespace-only lines (the usual shape of a triple-quoted literal) count as lines
                    nblank = (it["lead"] // 2) % 3
                    src = "".join(["\n", "   \n", "\n"][:nblank]) + src + ("\n" if it["lead"] == 5 else "")
                    target, kw = src, {}
                    raise_line = it["raise_line"] + 1 + nblank if it["raise_line"] is not None else None
                    fname = "<remote exec>"
                elif it["form"] == "function":
                    path, raise_line = write_function_module(d, modname, it)
                    target = load_module(path, modname).body
                    created.append(modname)
                    kw = {kk: mkfill(f) for kk, f in it["kwargs"].items()}
                    fname = path
                else:
                    path, raise_line = write_plain_module(d, modname, it)
                    target = load_module_lazy(path, modname)
                    created.append(modname)
                    kw = {}
                    fname = path
            finally:
                cur.notrace -= 1
            ch = gw.remote_exec(target, **kw)
            ctx.rec(aid, oi, "sub", ("submitted", label, it["form"], fname, raise_line))
            # feed the receives of the body
            for j in range(it["nrecv"]):
                try:
                    ch.send(("#IT:%s:i2w:m:%d#" % (label, j), j))
                except OSError:
                    break
            if it.get("peer_closed"):
                ch.close()
                ctx.latch("end-%s" % label).wait(600)
            # collect everything until the end
            got = []
            end = None
            while True:
                try:
                    item = ch.receive(600)
                except EOFError:
                    end = ("eof",)
                    break
                except ch.RemoteError as e:
                    end = ("remote", str(e)[-3000:])
                    break
                except Exception as e:  # noqa: BLE001
                    end = ("other", type(e).__name__, str(e)[:200])
                    break
                got.append((A.token_of(item), canon(item)))
            try:
                ch.waitclose(600)
                wc = ("ok",)
            except ch.RemoteError:
                wc = ("remote",)
            except Exception as e:  # noqa: BLE001
                wc = ("other", type(e).__name__)
            ctx.rec(aid, oi, "sub", ("finished", label, got, end, wc, bool(ch.isclosed())))
            del ch
    finally:
        for mname in created:
            sys.modules.pop(mname, None)
        shutil.rmtree(d, ignore_errors=True)
    return ("ok",)


def load_module_lazy(path, name):
    """A module object whose source file exists but which has NOT been executed locally (its body needs `channel`)."""
    import types
    mod = types.ModuleType(name)
    mod.__file__ = path
    sys.modules[name] = mod
    return mod


A.EXTRA_OPS["c06_script"] = c06_script


def execute(case, chooser):
    install_bridge_extras()
    res = gwsim.run_case(case, chooser, max_steps=300_000)
    gwsim.check_harness(res)
    hist = L.Hist(res)
    V, n = oracle(case, res, hist)
    sample = None
    if chooser.rng is not None and chooser.rng.random() < 0.01:
        sample = {"transport": case["transport"], "backend": case["backend"],
                  "items": [{k: it.get(k) for k in ("kind", "form", "shape", "body", "kwargs", "raise_line")} for it in case["items"]]}
    feats = {(case["transport"], tuple((it["kind"], it.get("form"), it.get("shape")) for it in case["items"]))}
    return gwsim.summarize(res, chooser, nontrivial=n > 0 and len(chooser.trace) > 0, feats=feats, sample=sample,
                           violations=V)


def install_bridge_extras():
    import types
    mod = sys.modules.get("vsim_bridge")
    if mod is None:
        mod = types.ModuleType("vsim_bridge")
        sys.modules["vsim_bridge"] = mod
    mod.mkfill = mkfill


def oracle(case, res, hist):
    key0 = case["transport"]
    V = L.generic_rules(res, hist, allow_exc=set(), key=key0)
    subs = [d for s_, d in hist.sub.get((0, 0), ())]
    subseq = {id(d): s_ for s_, d in hist.sub.get((0, 0), ())}
    notes = hist.notes
    n = 0
    for it in case["items"]:
        label = it["label"]
        if it["kind"] == "invalid":
            ent = [d for d in subs if d[0] == "invalid" and d[1] == label]
            if not ent:
                continue
            n += 1
            _, _, shape, r, wrote = ent[0]
            if r[0] != "rejected":
                V.append(v("impure-function-accepted", shape, f"remote_exec accepted a {shape} callable: {r}"))
            elif r[1] != ("TypeError" if shape == "kwargs_with_string" else "ValueError"):
                V.append(v("rejection-wrong-exception", f"{shape};{r[1]}", f"{r}"))
            if wrote != 0:
                V.append(v("bytes-sent-before-rejection", shape, f"{wrote} bytes were written before the call failed"))
            continue
        sub = [d for d in subs if d[0] == "submitted" and d[1] == label]
        fin = [(s_, d) for s_, d in hist.sub.get((0, 0), ()) if d[0] == "finished" and d[1] == label]
        if not sub or not fin:
            continue
        n += 1
        _, _, form, fname, raise_line = sub[0]
        fin_seq, (_, _, got, end, wc, closed) = fin[0]
        my_notes = [(s_, d) for s_, d in notes if len(d) > 1 and d[1] == label]
        start = [d for s_, d in my_notes if d[0] == "start"]
        k = f"{form};{key0}"
        if not start:
            V.append(v("body-did-not-run", k, f"{label}: no start note"))
            continue
        if len(start) > 1:
            V.append(v("body-ran-twice", k, label))
        if start[0][2] != "__channelexec__" or start[0][3] is not True:
            V.append(v("wrong-namespace", k, f"__name__={start[0][2]!r} channel-bound={start[0][3]!r}"))
        # items sent by the body arrive exactly, in order (up to the raise)
        exp_sends = [(tok, L.expected_canon(tok, fill)) for tok, fill in it["sends"]]
        if case.get("gw_strcfg"):
            # (coerced strings: only order and count of the items are compared)
            got = [(t, dict(exp_sends).get(t)) for t, c in got]
        if got != [(t, c) for t, c in exp_sends][:len(got)] or (end and end[0] in ("eof", "remote") and len(got) != len(exp_sends)):
            V.append(v("body-items-differ", k, f"{label}: got {got[:4]} expected {exp_sends[:4]}"))
        # kwargs type-exact
        if form == "function":
            kwn = [d for s_, d in my_notes if d[0] == "kwargs"]
            exp_kw = {kk: canon(mkfill(f)) for kk, f in it["kwargs"].items()}
            if not kwn or kwn[0][2] != exp_kw:
                V.append(v("kwargs-differ", k, f"{label}: body saw {kwn[0][2] if kwn else None}, sent {exp_kw}"))
        # receives
        gotn = [d for s_, d in my_notes if d[0] == "got"]
        # refused close
        if it["has_close"] and it["raise_line"] is None:
            if any(d[0] == "close-accepted" for s_, d in my_notes):
                V.append(v("close-inside-remote-exec-accepted", k, label))
            elif not any(d[0] == "close-refused" for s_, d in my_notes):
                V.append(v("close-inside-remote-exec-not-refused-with-oserror", k, label))
        # end of the body versus channel close
        if it["raise_line"] is None:
            endn = [s_ for s_, d in my_notes if d[0] == "end"]
            if end != ("eof",) or wc != ("ok",):
                V.append(v("normal-end-not-clean", k, f"{label}: receive ended with {end}, waitclose {wc}"))
            if not endn:
                V.append(v("channel-closed-before-body-finished", k, f"{label}: channel reported closed, body never reached its last statement"))
            elif endn[0] > fin_seq and not it.get("peer_closed"):
                V.append(v("channel-closed-before-body-finished", k, f"{label}: waitclose returned at {fin_seq}, body ended at {endn[0]}"))
        else:
            if not end or end[0] != "remote":
                V.append(v("remote-error-not-raised", k, f"{label}: {end}"))
            else:
                text = end[1]
                want = f'File "{fname}", line {raise_line}'
                if "KeyError" not in text or f"boom-{label}" not in text:
                    V.append(v("remote-error-text-incomplete", k, text[-300:]))
                elif want not in text:
                    V.append(v("traceback-wrong-file-or-line", k, f"{label}: expected {want!r} in ...{text[-400:]}"))
        if not closed:
            V.append(v("channel-not-closed-after-exec", k, label))
    return V, n
