"""C07 - remote failures surface as RemoteError on that channel only.

Failure at a generated position of an item stream: a raising remote body, a raising callback on the
initiator, a raising callback on the worker - with the failing side's channel object alive or already dropped -
while sibling channels carry their own traffic; afterwards a fresh remote_exec as a liveness probe.
Every op carries the outcome the property prescribes (scripted expectation); the oracle compares.
"""

from __future__ import annotations

from vsim import gwsim

from . import chanlib as L
from .chanlib import v

PROP = "C07"
LEVEL = "exploration"
BUDGET = {
    "quick": {"budget_s": 45, "chunk": 80, "shrink_s": 40},
    "thorough": {"budget_s": 900, "chunk": 200, "shrink_s": 120},
}
RULE = (
    "cases: failure kind (remote body raises / callback raises on initiator / callback raises on worker / same with the "
    "channel object dropped + gc / body error fetched only after terminate or after the worker was killed) x failure position 0-4 within the item stream x observer style (receive, waitclose, "
    "endmarker callback) x 0-2 sibling channels with echo traffic x transports popen/bare/socket/proxy x backends, "
    "small pipes, schedules with 0-3 line preemptions; then a fresh remote_exec probe.  Non-trivial = the failure "
    "was triggered under a schedule with real choices; distinct = distinct event-log digests."
)
ASSUMPTIONS = [
    "expected outcomes are scripted by the generator from the property text; only peer-observable results are judged",
    "schedules sampled (sync points + <=3 line preemptions)",
]
COMPONENTS = {
    "real": ["gateway_base: executetask, geterrortext, Channel.close(error), ChannelFactory._local_receive/_local_close, "
             "RemoteError, receiver thread", "Gateway/Group", "transports as in C02"],
    "stub": ["kernel pipes/sockets/processes (vsim)", "explicit gc ops instead of cyclic GC"],
}


def gen(rng, tier):
    transport = rng.choices(["popen", "bare", "socket", "proxy"], [55, 10, 15, 20])[0]
    backend = rng.choice(["thread", "thread", "gevent", "main_thread_only"])
    specs, gwi = L.gateways_for(transport, backend)
    knobs = L.gen_knobs(rng, small_ok=transport == "popen")
    if transport != "popen" and knobs["pipe_cap"] < 4096:
        knobs["pipe_cap"] = 4096
    mode = rng.choice(["body", "body", "cb_i", "cb_w", "cb_w_dropped", "cb_i_dropped", "body_late"])
    j = rng.randrange(0, 5)
    extra = rng.randrange(0, 3)
    actors = [{"side": "i", "gw": gwi, "chan": None, "ops": []}]
    expect = {0: []}
    main = actors[0]["ops"]

    def add(aid, op, exp="any"):
        actors[aid]["ops"].append(op)
        expect.setdefault(aid, []).append(exp)

    def new_actor(side, chan="c0"):
        actors.append({"side": side, "gw": gwi, "chan": chan, "ops": []})
        expect[len(actors) - 1] = []
        return len(actors) - 1

    W = new_actor("w")
    if rng.random() < 0.15:
        # gateway-level string coercion for user data; error texts are not user data
        add(0, ["gw_reconfigure", gwi, rng.random() < 0.5, True], "ok")
    add(0, ["exec", "c0", W, gwi], "chan")
    local = []
    if mode == "body_late":
        # the error is fetched only after the connection has ended (results collected after terminate / after the
        # worker was killed): it is still the RemoteError, once, after the items - not the connection's EOFError
        for k in range(j):
            add(W, ["send", "c0", f"c0:w2i:{W}:{k}", L.gen_fill(rng)], "ok")
        add(W, ["raise", "body boom"], "raised")
        add(0, ["poll_closed", "c0", 400], "true")
        faults = []
        how = rng.choice(["terminate", "terminate", "kill"])
        if how == "terminate":
            add(0, ["terminate", 10.0], "any")
        else:
            # SIGKILL for the worker once the close has been seen, then wait for the receiver thread to end
            faults.append({"at": ["op", 0, len(actors[0]["ops"]) - 1, "ret"],
                           "do": ["kill", "w2" if transport in ("socket", "proxy") else "w1"]})
            add(0, ["gwjoin", 60.0], "any")
        style = rng.choice(["recv", "waitclose"])
        if style == "recv":
            for k in range(j):
                add(0, ["recv", "c0"], "item")
            add(0, ["recv", "c0"], "remote:BodyError")
            add(0, ["recv", "c0"], "eof")
        else:
            add(0, ["waitclose", "c0", 60], "remote:BodyError")
            for k in range(j):
                add(0, ["recv", "c0"], "item")
            add(0, ["recv", "c0"], "eof")
        add(0, ["isclosed", "c0"], "true")
        if how != "terminate":
            add(0, ["terminate", 10.0], "any")
        return {"gateways": specs, "actors": actors, "expect": {str(k): val for k, val in expect.items()},
                "knobs": knobs, "strategy": L.gen_strategy(rng), "preempt": L.gen_preempt(rng, 3000),
                "preempt_at": L.gen_preempt_at(rng, ["_local_close", "close", "executetask", "_getremoteerror", "waitclose",
                                                     "receive", "_thread_receiver", "_finished_receiving"]),
                "faults": faults, "transport": transport, "backend": backend, "gwi": gwi, "mode": mode, "failpos": j,
                "errtext_limit": 3000}
    if mode == "body":
        for k in range(j):
            add(W, ["send", "c0", f"c0:w2i:{W}:{k}", L.gen_fill(rng)], "ok")
        msg, ekind = rng.choice([("body boom", "exc")] * 4 + [("body boom", "base"), ("body bôom ☃", "exc"),
                                                               ("body boom \ud800 lone surrogate", "exc"),
                                                               ("body boom", "badstr")])
        add(W, ["raise", msg, ekind], "raised")
        # (an exception whose str() fails still arrives with its type and traceback)
        exp_err = "remotetext:BodyErrorS" if ekind == "badstr" else "remote:BodyError"
        R = new_actor("i")
        local.append(R)
        style = rng.choice(["recv", "recv", "waitclose", "cb"])
        if style == "recv":
            for k in range(j):
                add(R, ["recv", "c0"], "item")
            add(R, ["recv", "c0"], exp_err)
            add(R, ["recv", "c0"], "eof")
            add(R, ["waitclose", "c0", 60], "ok")
            add(R, ["isclosed", "c0"], "true")
        elif style == "waitclose":
            add(R, ["waitclose", "c0", 600], exp_err)
            for k in range(j):
                add(R, ["recv", "c0"], "item")
            add(R, ["recv", "c0"], "eof")
            add(R, ["waitclose", "c0", 60], "ok")
        else:
            add(R, ["setcb", "c0", True, None, None, None, "c07-end"], "ok")
            add(R, ["latch_wait", "c07-end", 600], "true")
            add(R, ["waitclose", "c0", 600], exp_err)
            add(R, ["waitclose", "c0", 60], "ok")
    elif mode in ("cb_i", "cb_i_dropped"):
        n = j + 1 + extra
        F = new_actor("i")
        local.append(F)
        add(F, ["setcb", "c0", rng.random() < 0.5, j], "ok")
        add(F, ["latch_set", "cb-installed"], "ok")
        if mode == "cb_i":
            add(F, ["waitclose", "c0", 600], "remote:CbError")
            add(F, ["isclosed", "c0"], "true")
            add(F, ["send", "c0", "probe", ["none"]], "oserror")
            add(F, ["waitclose", "c0", 60], "ok")
        else:
            add(F, ["drop", "c0"], "ok")
            add(F, ["gc"], "ok")
        add(W, ["latch_wait", "cb-installed", 600], "true")
        for k in range(n):
            add(W, ["send", "c0", f"c0:w2i:{W}:{k}", L.gen_fill(rng)], "ok" if k <= j else "ok|oserror")
        if mode == "cb_i_dropped":
            # the initiator dropped its end (with the callback installed): the worker is told "no more data
            # from the peer" at once, so only the *eventual* RemoteError is prescribed
            add(W, ["poll_remote", "c0", 120], "remote:CbError")
            add(W, ["waitclose", "c0", 60], "ok")
        else:
            obs = rng.choice(["waitclose", "recv"])
            if obs == "waitclose":
                add(W, ["waitclose", "c0", 600], "remote:CbError")
                add(W, ["waitclose", "c0", 60], "ok")
            else:
                add(W, ["recv", "c0"], "remote:CbError")
                add(W, ["recv", "c0"], "eof")
        add(W, ["isclosed", "c0"], "true")
        add(W, ["send", "c0", "probe", ["none"]], "oserror")
    elif mode == "cb_w":
        n = j + 1 + extra
        add(W, ["setcb", "c0", rng.random() < 0.5, j], "ok")
        add(W, ["latch_set", "cb-installed"], "ok")
        add(W, ["waitclose", "c0", 600], "remote:CbError")
        add(W, ["isclosed", "c0"], "true")
        add(W, ["send", "c0", "probe", ["none"]], "oserror")
        S = new_actor("i")
        local.append(S)
        add(S, ["latch_wait", "cb-installed", 600], "true")
        for k in range(n):
            add(S, ["send", "c0", f"c0:i2w:{S}:{k}", L.gen_fill(rng)], "ok" if k <= j else "ok|oserror")
        if rng.random() < 0.5:
            add(S, ["recv", "c0"], "remote:CbError")
            add(S, ["recv", "c0"], "eof")
            add(S, ["waitclose", "c0", 60], "ok")
        else:
            add(S, ["waitclose", "c0", 600], "remote:CbError")
            add(S, ["recv", "c0"], "eof")
        add(S, ["isclosed", "c0"], "true")
    else:  # cb_w_dropped: sub-channel with a callback on the worker, worker drops its reference
        n = j + 1 + extra
        add(W, ["newchan", "s"], "chan")
        add(W, ["sendchan", "c0", "s", f"c0:w2i:{W}:chan", rng.choice(["bare", "list", "dict"])], "chan")
        add(W, ["setcb", "s", False, j], "ok")
        add(W, ["drop", "s"], "ok")
        add(W, ["gc"], "ok")
        add(W, ["latch_set", "cb-installed"], "ok")
        add(W, ["latch_wait", "fin", 900], "true")
        add(0, ["recvchan", "c0", "s"], "chan")
        S = new_actor("i")
        local.append(S)
        add(S, ["latch_wait", "cb-installed", 600], "true")
        for k in range(n):
            add(S, ["send", "s", f"s:i2w:{S}:{k}", L.gen_fill(rng)], "ok" if k <= j else "ok|oserror")
        add(S, ["poll_remote", "s", 120], "remote:CbError")
        add(S, ["isclosed", "s"], "true")
        add(S, ["send", "s", "probe", ["none"]], "oserror")
        add(S, ["recv", "s"], "eof")
    # siblings
    sib_tokens = {}
    nsib = 0 if backend == "main_thread_only" else rng.choice([0, 1, 1, 2])
    for si in range(nsib):
        label = f"x{si}"
        SW = new_actor("w", label)
        SI = new_actor("i", label)
        local.append(SI)
        add(0, ["exec", label, SW, gwi], "chan")
        kk = rng.randrange(1, 5)
        for k in range(kk):
            add(SI, ["send", label, f"{label}:i2w:{SI}:{k}", L.gen_fill(rng)], "ok")
            add(SW, ["recv", label], f"tok:{label}:i2w:{SI}:{k}")
            add(SW, ["send", label, f"{label}:w2i:{SW}:{k}", L.gen_fill(rng)], "ok")
            add(SI, ["recv", label], f"tok:{label}:w2i:{SW}:{k}")
        add(SI, ["recv", label], "eof")
    for aid in local:
        add(0, ["spawn", aid], "ok")
    for aid in local:
        add(0, ["join", aid, 900], "true")
    add(0, ["latch_set", "fin"], "ok")
    for aid, a in enumerate(actors):
        if a["side"] == "w":
            add(0, ["join", aid, 900], "true")
    add(0, ["hasreceiver"], "true")
    add(0, ["exec_src", "p", "channel.send('alive')", gwi], "chan")
    add(0, ["recv", "p"], "alive")
    add(0, ["waitclose", "p", 600], "ok")
    add(0, ["hasreceiver"], "true")
    add(0, ["terminate", 10.0], "any")
    return {"gateways": specs, "actors": actors, "expect": {str(k): val for k, val in expect.items()},
            "knobs": knobs, "strategy": L.gen_strategy(rng), "preempt": L.gen_preempt(rng, 3000), "preempt_at": L.gen_preempt_at(rng, ["_local_receive", "_local_close", "close", "executetask", "_getremoteerror", "waitclose", "receive", "__del__"]), "faults": [],
            "transport": transport, "backend": backend, "gwi": gwi, "mode": mode, "failpos": j,
            "errtext_limit": 3000}


def shrink_cases(case):
    if case.get("preempt_at"):
        for i in range(len(case["preempt_at"])):
            c = dict(case)
            c["preempt_at"] = case["preempt_at"][:i] + case["preempt_at"][i + 1:]
            yield c
    if case.get("preempt"):
        for i in range(len(case["preempt"])):
            c = dict(case)
            c["preempt"] = case["preempt"][:i] + case["preempt"][i + 1:]
            yield c
    k = case["knobs"]
    if k.get("chunk") != "greedy" or k.get("pipe_cap") != 65536:
        c = dict(case)
        c["knobs"] = dict(k, chunk="greedy", pipe_cap=65536)
        yield c


def execute(case, chooser):
    res = gwsim.run_case(case, chooser, max_steps=150_000)
    gwsim.check_harness(res)
    hist = L.Hist(res)
    V = oracle(case, res, hist)
    sample = None
    if chooser.rng is not None and chooser.rng.random() < 0.004:
        sample = {k: case[k] for k in ("transport", "backend", "mode", "failpos", "knobs", "strategy", "preempt")}
        sample["actors"] = [{"side": a["side"], "ops": [o[:3] for o in a["ops"]]} for a in case["actors"]]
    feats = {(case["transport"], case["backend"], case["mode"], case["failpos"])}
    return gwsim.summarize(res, chooser, nontrivial=len(chooser.trace) > 0, feats=feats, sample=sample,
                           violations=V)


def oracle(case, res, hist):
    key0 = case["mode"]
    V = L.generic_rules(res, hist, allow_exc={("*", "RemoteError"), ("*", "EOFError"), ("*", "OSError")}, key=key0)
    # an op that never returned means a later expectation was never evaluated: generic blocked-forever covers it
    V += L.check_expectations(case, hist, key0)
    # RemoteError exactly once per channel observer: count RemoteError results per (side, channel)
    count = {}
    for aid, oi, op, s1, s2, r in hist.ops(("recv", "waitclose")):
        if r and r[0] == "exc" and r[1] == "RemoteError":
            side = case["actors"][aid]["side"]
            count[(side, op[1])] = count.get((side, op[1]), 0) + 1
    for k_, n in count.items():
        if n > 1:
            V.append(v("remote-error-more-than-once", f"{key0};{k_[0]}", f"{k_}: {n} times"))
    return V
