"""C08 - message frames survive any chunking and never interleave on the wire.

(a) IO-class harness: 1-4 writer tasks push generated messages (every message code, channel ids over the
    signed 32-bit range, payloads 0 B .. MiBs) through the real Message.to_io / BaseGateway._send over the real
    Popen2IO (simulated pipe) or SocketIO (simulated socket); one reader task decodes with the real
    Message.from_io under every read chunking; small kernel buffers make write/sendall block mid-frame.
(b) end-to-end: C02's channel workload with several concurrent senders of large items on every transport.
"""

from __future__ import annotations

import hashlib

from vsim import gwsim, wire
from vsim.kernel import HarnessError, TaskKilled
from vsim.sio import Pipe, RFile, WFile
from vsim.world import World

from . import c02_channels as c02
from . import chanlib as L
from .chanlib import v

PROP = "C08"
LEVEL = "exploration"
BUDGET = {
    "quick": {"budget_s": 45, "chunk": 80, "shrink_s": 40},
    "thorough": {"budget_s": 900, "chunk": 200, "shrink_s": 120},
}
RULE = (
    "cases: (a) 1-4 concurrent writer tasks x generated messages (codes 0-7, channel ids in [-2^31, 2^31-1], payload "
    "0 B-4 MiB) over real Popen2IO/SocketIO on simulated pipes/sockets with capacities 1 B-64 KiB and greedy/random/"
    "1-byte read chunking, decoded by the real Message.from_io; (b) C02-style channel programs with 2-4 concurrent "
    "large-item senders per side on popen/bare/socket/proxy gateways.  Non-trivial = at least two messages and a "
    "schedule with real choices; distinct = distinct event-log digests."
)
ASSUMPTIONS = [
    "pipe write end behaves like io.BufferedWriter (one write() call is atomic w.r.t. other writers of the same "
    "file object), socket.sendall is a loop of partial sends with a preemption point between them",
    "schedules sampled (sync points + <=3 line preemptions)",
]
COMPONENTS = {
    "real": ["Message.to_io/from_io", "BaseGateway._send", "Popen2IO", "gateway_socket.SocketIO",
             "(b): the whole gateway stack incl. ProxyIO/serve_proxy_io/ChannelFileRead"],
    "stub": ["kernel pipes/sockets (vsim.sio)"],
}


def gen(rng, tier):
    if rng.random() < 0.5:
        return gen_io(rng, tier)
    case = c02.gen_profile(rng, tier, senders=(2, 4), big_p=0.6, transports=[30, 10, 35, 25])
    case["mode"] = "e2e"
    return case


def gen_io(rng, tier):
    kind = rng.choice(["pipe", "socket", "socket"])
    nw = rng.choice([1, 2, 2, 3, 4])
    huge = tier == "thorough" and rng.random() < 0.1
    writers = []
    for w in range(nw):
        msgs = []
        for k in range(rng.randrange(1, 7)):
            code = rng.randrange(0, 8)
            chan = rng.choice([0, 1, -1, 2**31 - 1, -(2**31), rng.randrange(-2**31, 2**31)])
            size = rng.choice([0, 0, 1, 8, 9, 10, 63, 64, 65, 300, 5000, 70000] + ([1 << 20, 4 << 20] if huge else []))
            msgs.append([code, chan, size])
        writers.append(msgs)
    cap = rng.choice([1, 7, 64, 4096, 65536])
    tot = sum(m[2] + 9 for ms in writers for m in ms)
    if tot / cap > 3000:
        cap = 4096 if tot < 4_000_000 else 65536
    return {"mode": "io", "kind": kind, "writers": writers,
            "knobs": {"pipe_cap": cap, "sock_cap": cap, "chunk": rng.choice(["greedy", "random", "random", "one"])},
            "strategy": L.gen_strategy(rng), "preempt": L.gen_preempt(rng, 600),
            "use_gateway_send": rng.random() < 0.8}


def shrink_cases(case):
    if case["mode"] != "io":
        yield from c02.shrink_cases(case)
        return
    ws = case["writers"]
    if len(ws) > 1:
        for i in range(len(ws)):
            c = dict(case)
            c["writers"] = ws[:i] + ws[i + 1:]
            yield c
    for i, ms in enumerate(ws):
        if len(ms) > 1:
            for j in range(len(ms)):
                c = dict(case)
                c["writers"] = [list(x) for x in ws]
                c["writers"][i] = ms[:j] + ms[j + 1:]
                yield c
    for i, ms in enumerate(ws):
        for j, m in enumerate(ms):
            if m[2] > 16:
                c = dict(case)
                c["writers"] = [list(x) for x in ws]
                c["writers"][i] = list(ms)
                c["writers"][i][j] = [m[0], m[1], m[2] // 2]
                yield c
    if case.get("preempt"):
        c = dict(case)
        c["preempt"] = []
        yield c


def payload(w, k, size):
    head = b"<%d.%d>" % (w, k)
    if size <= len(head):
        return head[:size]
    body = (bytes(range(256)) * ((size - len(head)) // 256 + 1))[: size - len(head)]
    return head + body


def execute(case, chooser):
    if case["mode"] == "e2e":
        r = c02.execute(case, chooser)
        return r
    return execute_io(case, chooser)


def execute_io(case, chooser):
    w = World(chooser, knobs=case["knobs"], strategy=case["strategy"], max_steps=400_000)
    s = w.sched
    if case["strategy"].get("kind") == "pct":
        s.pct_changes = set(case["strategy"].get("changes", ()))
    if case.get("preempt"):
        s.preempt_plan = set(case["preempt"])
    gb = w.gb
    gsock = w.mods["gsock"]
    state = {"decoded": [], "reader_exc": None, "writer_exc": [], "ready": False}
    proc_holder = {}

    def setup_ios():
        p = proc_holder["p"]
        em = w.execmodel_for(p, "thread")
        if case["kind"] == "pipe":
            pipe = Pipe(w, case["knobs"]["pipe_cap"], "io.pipe")
            wio = gb.Popen2IO(WFile(pipe, p), _NullIn(), em)
            rio = gb.Popen2IO(_NullOut(), RFile(pipe, p), em)
            state["pipe"] = pipe
        else:
            sm = em.socket
            srv = sm.socket(sm.AF_INET, sm.SOCK_STREAM)
            srv.bind(("localhost", 0))
            srv.listen(1)
            cl = sm.socket(sm.AF_INET, sm.SOCK_STREAM)
            cl.connect(("localhost", srv.getsockname()[1]))
            conn, _ = srv.accept()
            wio = gsock.SocketIO(cl, em)
            rio = gsock.SocketIO(conn, em)
            state["pipe"] = cl.tx
        return wio, rio

    def writer(wi, msgs, wio, gwobj, done):
        try:
            for k, (code, chan, size) in enumerate(msgs):
                data = payload(wi, k, size)
                if gwobj is not None:
                    gwobj._send(code, chan, data)
                else:
                    gb.Message(code, chan, data).to_io(wio)
        except (HarnessError, TaskKilled):
            raise
        except BaseException as e:  # noqa: BLE001
            state["writer_exc"].append((wi, type(e).__name__, str(e)[:200]))
        finally:
            done.append(wi)

    def reader(rio):
        try:
            while True:
                m = gb.Message.from_io(rio)
                d = m.data
                state["decoded"].append((m.msgcode, m.channelid, len(d), hashlib.sha1(d).hexdigest()[:12],
                                         bytes(d[:16])))
        except EOFError:
            state["reader_eof"] = True
        except (HarnessError, TaskKilled):
            raise
        except BaseException as e:  # noqa: BLE001
            state["reader_exc"] = (type(e).__name__, str(e)[:200])

    def main():
        wio, rio = setup_ios()
        p = proc_holder["p"]
        gwobj = None
        if case.get("use_gateway_send"):
            try:
                gwobj = gb.BaseGateway(wio, id="c08")
            except Exception as e:  # noqa: BLE001
                raise HarnessError(f"cannot build BaseGateway for the IO harness: {e!r}") from e
            if not hasattr(gwobj, "_send"):
                raise HarnessError("BaseGateway._send missing (anchor of C08 changed)")
        done = []
        w.spawn_task(p, reader, (rio,), name="reader")
        for wi, msgs in enumerate(case["writers"]):
            w.spawn_task(p, writer, (wi, msgs, wio, gwobj, done), name=f"writer{wi}")
        s.block(lambda: len(done) == len(case["writers"]), None, "join", "writers")
        try:
            wio.close_write()
        except Exception as e:  # noqa: BLE001
            state["writer_exc"].append((-1, type(e).__name__, str(e)[:200]))
        s.block(lambda: state.get("reader_eof") or state["reader_exc"] is not None, 600, "join", "reader")
        s.block(lambda: False, None, "park", "main")

    proc_holder["p"] = w.new_process("init", main)
    reason = w.run()
    if reason != "quiescent":
        raise HarnessError(f"run ended with {reason}")
    if w.leaked:
        raise HarnessError("threads leaked")
    V = oracle_io(case, state)
    nmsg = sum(len(m) for m in case["writers"])
    sample = None
    if chooser.rng is not None and chooser.rng.random() < 0.004:
        sample = {"mode": "io", "kind": case["kind"], "knobs": case["knobs"], "writers": case["writers"],
                  "decoded": [list(map(str, d[:3])) for d in state["decoded"]][:20]}
    return {
        "violations": V, "digest": s.digest(), "sim_time": s.now, "steps": s.step, "switches": s.switches,
        "stats": dict(s.stats), "nontrivial": nmsg >= 2 and len(chooser.trace) > 0,
        "features": {("io", case["kind"], case["knobs"]["chunk"], len(case["writers"]))}, "sample": sample,
    }


class _NullIn:
    def read(self, n=-1):
        return b""

    def close(self):
        pass


class _NullOut:
    def write(self, d):
        return len(d)

    def flush(self):
        pass

    def close(self):
        pass


def oracle_io(case, state):
    V = []
    key = case["kind"]
    for wi, name, text in state["writer_exc"]:
        V.append(v("writer-raised", f"{key};{name}", f"writer {wi}: {name}: {text}"))
    nexp = sum(len(m) for m in case["writers"])
    if state["reader_exc"] is not None and len(state["decoded"]) < nexp:
        # (what the reader raises at a clean end of stream is C04's business, not judged here)
        V.append(v("reader-raised", f"{key};{state['reader_exc'][0]}", state["reader_exc"]))
    expected = []
    for wi, msgs in enumerate(case["writers"]):
        for k, (code, chan, size) in enumerate(msgs):
            d = payload(wi, k, size)
            expected.append((wi, k, (code, chan, size, hashlib.sha1(d).hexdigest()[:12], bytes(d[:16]))))
    dec = list(state["decoded"])
    # independent parse of the raw stream
    raw = bytes(state["pipe"].wire)
    frames, end, bad = wire.parse_frames(raw, 0)
    if bad is not None or end != len(raw):
        V.append(v("frame-garbled", f"{key};raw-stream", f"raw stream does not parse: bad={bad} end={end} len={len(raw)}"))
    raw_seq = [(c, ch, len(p), hashlib.sha1(p).hexdigest()[:12], p[:16]) for _, c, ch, p in frames]
    if not V and raw_seq != dec:
        V.append(v("decode-differs-from-wire", key, f"decoded {len(dec)} messages, wire has {len(raw_seq)}"))
    # multiset (all messages) + per-writer order (judged on messages that are unique in the case,
    # so that identical frames of different writers cannot be mis-attributed)
    from collections import Counter
    cnt = Counter(m for _, _, m in expected)
    remaining = list(dec)
    last_pos = {}
    for wi, k, m in expected:
        try:
            pos = remaining.index(m)
        except ValueError:
            V.append(v("message-lost-or-garbled", key, f"writer {wi} message {k} {m[:3]} not decoded"))
            continue
        remaining[pos] = None
        if cnt[m] == 1:
            if last_pos.get(wi, -1) > pos:
                V.append(v("writer-order", key, f"writer {wi} message {k} decoded before its predecessor"))
            last_pos[wi] = pos
    extra = [m for m in remaining if m is not None]
    if extra:
        V.append(v("spurious-message", key, f"{len(extra)} decoded messages were never written: {extra[:2]}"))
    if not state.get("reader_eof") and state["reader_exc"] is None:
        V.append(v("reader-blocked", key, "reader did not reach EOF"))
    return V
