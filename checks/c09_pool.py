"""C09 - WorkerPool runs every accepted task exactly once and reports truthfully.

Real WorkerPool/Reply from the tree under test on the simulated exec model; generated spawner /
waiter / shutdown actors; all interleavings chosen by the seeded scheduler (sync points + bounded
line preemption); oracle over the recorded invoke/return history.
"""

from __future__ import annotations

from vsim.kernel import HarnessError
from vsim.prims import Latch
from vsim.world import World

PROP = "C09"
LEVEL = "exploration"
BUDGET = {
    "quick": {"budget_s": 35, "chunk": 400, "shrink_s": 30},
    "thorough": {"budget_s": 600, "chunk": 1000, "shrink_s": 90},
}
RULE = (
    "cases: generated programs for the real WorkerPool (backend thread/main_thread_only, with/without an "
    "integrated primary task, 1-3 actors doing spawn/get/waitfinish/waitall/trigger_shutdown/terminate, task "
    "functions that return, raise, sleep or block on a latch) run under a seeded schedule (uniform / sticky / "
    "PCT, 0-3 line preemptions inside execnet code).  A run is non-trivial if at least one task was accepted and "
    "the schedule had at least one real choice; distinct = distinct event-log digests of non-trivial runs."
)
ASSUMPTIONS = [
    "thread scheduling is modelled at sync-point granularity plus <=3 line-level preemptions per run",
    "for main_thread_only pools with a primary thread the spawner follows the gateway's gated submission "
    "protocol (quantifier of C09)",
    "threading.Event/RLock/Queue semantics are those of vsim.prims (notified waiters return True)",
]
COMPONENTS = {
    "real": ["gateway_base.WorkerPool", "gateway_base.Reply"],
    "stub": ["ExecModel primitives (locks, events, thread start, sleep, clock) = vsim"],
}

EXC = {"KeyError": KeyError, "ValueError": ValueError, "SystemExit": SystemExit,
       "ZeroDivisionError": ZeroDivisionError, "OSError": OSError}


class FnError(Exception):
    pass


# ---------------------------------------------------------------------------
# generation
# ---------------------------------------------------------------------------


def gen_e2e(rng, tier):
    """End-to-end form of the same property: remote_exec immediately followed by Group.terminate."""
    from . import chanlib as L
    backend = rng.choice(["thread", "main_thread_only", "gevent"])
    transport = rng.choice(["popen", "popen", "bare", "proxy"])
    specs, gwi = L.gateways_for(transport, backend)
    n = rng.choice([1, 1, 2]) if backend != "main_thread_only" else 1
    actors = [{"side": "i", "gw": gwi, "chan": None, "ops": []}]
    main = actors[0]["ops"]
    for k in range(n):
        actors.append({"side": "w", "gw": gwi, "chan": f"c{k}", "ops": [["ident"], ["yield", rng.randrange(0, 3)]]})
        main.append(["exec", f"c{k}", len(actors) - 1, gwi])
    if rng.random() < 0.3:
        main.append(["yield", rng.randrange(1, 4)])
    main.append(["terminate", 30.0])
    return {"mode": "e2e", "gateways": specs, "actors": actors,
            "knobs": {"pipe_cap": rng.choice([4096, 65536]), "sock_cap": 65536, "chunk": rng.choice(["greedy", "random"])},
            "strategy": L.gen_strategy(rng), "preempt": [],
            "preempt_at": L.gen_preempt_at(rng, ["spawn", "_try_send_to_primary_thread", "trigger_shutdown",
                                                 "integrate_as_primary_thread", "_local_schedulexec", "_terminate_execution"],
                                           maxn=30, p=0.5),
            "faults": [], "transport": transport, "backend": backend, "nbodies": n}


def execute_e2e(case, chooser):
    from vsim import gwsim
    from . import chanlib as L
    res = gwsim.run_case(case, chooser, max_steps=200_000, max_time=400.0)
    gwsim.check_harness(res)
    hist = L.Hist(res)
    V = []
    key = f"e2e;{case['backend']}"
    term = [(s1, s2, r) for aid, oi, op, s1, s2, r in hist.ops(("terminate",))]
    if term:
        s1, s2, r = term[0]
        if r is None:
            V.append(v("terminate-blocked-after-remote-exec", key, "terminate(30) never returned"))
        elif r[0] == "val" and r[3] - r[2] >= 5.0:
            V.append(v("terminate-stalled-after-remote-exec", key,
                       f"remote_exec immediately followed by terminate(30) took {r[3] - r[2]:.1f} simulated s "
                       f"(an accepted task was not run: the worker waited for it, then interrupted itself)"))
        elif r[0] == "exc":
            V.append(v("terminate-raised", f"{key};{r[1]}", f"{r}"))
    for aid in range(1, 1 + case["nbodies"]):
        starts = [1 for (seq, a, oi, ph, d) in res.H if a == aid and oi == 0 and ph == "inv"]
        if len(starts) > 1:
            V.append(v("task-ran-twice", key, f"body {aid} started {len(starts)} times"))
    for name, p in sorted(res.procs.items()):
        if name != "init" and p["alive"]:
            V.append(v("child-alive", key, f"{name} alive after terminate(30)"))
    return gwsim.summarize(res, chooser, nontrivial=len(chooser.trace) > 0,
                           feats={("e2e", case["transport"], case["backend"], case["nbodies"])}, sample=None, violations=V)


RETOBJ = ["none", "false", "zero", "exc_value", "exc_oserror", "exc_sysexit", "exc_kbd", "exc_class", "exc_in_list"]


def make_retobj(which, tid):
    return {"none": None, "false": False, "zero": 0, "exc_value": ValueError("returned, not raised", tid),
            "exc_oserror": OSError("timeout returned as a value", tid), "exc_sysexit": SystemExit(3),
            "exc_kbd": KeyboardInterrupt(), "exc_class": KeyError, "exc_in_list": [RuntimeError("x", tid)]}[which]


def canon_ret(v):
    if isinstance(v, BaseException):
        return ("excobj", type(v).__name__, repr(v.args))
    if isinstance(v, type):
        return ("class", v.__name__)
    if isinstance(v, list):
        return ("list", [canon_ret(x) for x in v])
    return v


def gen(rng, tier):
    if rng.random() < 0.12:
        return gen_e2e(rng, tier)
    backend = rng.choice(["thread", "main_thread_only"])
    hasprimary = rng.random() < 0.75
    gated = backend == "main_thread_only" and hasprimary
    nact = rng.choice([1, 2, 2, 3])
    actors = []
    nlatch = 0
    tid = 0
    for a in range(nact):
        ops = []
        may_spawn = (not gated) or a == 0
        nsp = rng.choice([1, 1, 2, 3, 4]) if may_spawn else 0
        mine = []
        for _ in range(nsp):
            k = rng.random()
            if k < 0.35:
                fn = ["ret", tid]
            elif k < 0.45:
                # a function may return anything, also None, falsy values and exception objects: get() returns it
                fn = ["retobj", rng.choice(RETOBJ), tid]
            elif k < 0.65:
                fn = ["raise", rng.choice(sorted(EXC) + ["FnError"]), tid]
            elif k < 0.80:
                fn = ["sleep", rng.choice([0.0, 0.1, 1.0, 7.0])]
            else:
                fn = ["block", nlatch]
                nlatch += 1
            ops.append(["spawn", tid, fn])
            mine.append(tid)
            tid += 1
            r = rng.random()
            if r < 0.35:
                ops.append([rng.choice(["trigger", "trigger", "terminate"]),
                            rng.choice([None, 0.5, 3.0])])
            elif r < 0.55:
                ops.append(["yield", rng.randrange(1, 4)])
            elif r < 0.75 and mine:
                ops.append([rng.choice(["get", "waitfinish"]), rng.choice(mine),
                            rng.choice([None, None, 0.0, 0.5, 2.0])])
        nextra = rng.randrange(0, 4)
        for _ in range(nextra):
            r = rng.random()
            if r < 0.25 and mine:
                ops.append([rng.choice(["get", "waitfinish"]), rng.choice(mine),
                            rng.choice([None, None, 0.5, 2.0])])
            elif r < 0.45:
                ops.append(["waitall", rng.choice([None, None, 0.0, 0.5, 3.0])])
            elif r < 0.60:
                ops.append([rng.choice(["trigger", "terminate"]), rng.choice([None, 0.5, 3.0])])
            elif r < 0.75 and nlatch:
                ops.append(["release", rng.randrange(nlatch)])
            elif r < 0.9:
                ops.append(["yield", rng.randrange(1, 5)])
            else:
                ops.append(["sleep", rng.choice([0.1, 1.0, 4.0])])
        if not ops:
            ops.append(["waitall", rng.choice([None, 1.0])])
        actors.append(ops)
    st = rng.random()
    if st < 0.35:
        strategy = {"kind": "uniform"}
    elif st < 0.8:
        strategy = {"kind": "sticky", "p": rng.choice([0.5, 0.8, 0.93])}
    else:
        strategy = {"kind": "pct", "changes": sorted(rng.sample(range(1, 120), rng.randrange(0, 4)))}
    B = rng.choice([0, 0, 1, 2, 3])
    preempt = sorted(rng.sample(range(1, 260), B))
    return {"backend": backend, "hasprimary": hasprimary, "actors": actors, "nlatch": nlatch,
            "strategy": strategy, "preempt": preempt,
            "primary_delay": rng.choice([0, 0, 0, 2, 6])}


def shrink_cases(case):
    if case.get("mode") == "e2e":
        if case.get("preempt_at"):
            c = dict(case)
            c["preempt_at"] = []
            yield c
        return
    acts = case["actors"]
    # drop an actor
    if len(acts) > 1:
        for i in range(len(acts)):
            if case["backend"] == "main_thread_only" and case["hasprimary"] and i == 0:
                continue
            c = dict(case)
            c["actors"] = acts[:i] + acts[i + 1:]
            yield c
    # drop an op (keep spawn ids stable: ids are explicit)
    for i, ops in enumerate(acts):
        for j in range(len(ops)):
            if ops[j][0] == "spawn":
                used = any(o[0] in ("get", "waitfinish") and o[1] == ops[j][1] for o in ops)
                if used:
                    continue
            c = dict(case)
            c["actors"] = [list(o) for o in acts]
            c["actors"][i] = ops[:j] + ops[j + 1:]
            if not c["actors"][i]:
                continue
            yield c
    if case["preempt"]:
        for i in range(len(case["preempt"])):
            c = dict(case)
            c["preempt"] = case["preempt"][:i] + case["preempt"][i + 1:]
            yield c
    if case.get("primary_delay"):
        c = dict(case)
        c["primary_delay"] = 0
        yield c
    # simplify functions
    for i, ops in enumerate(acts):
        for j, o in enumerate(ops):
            if o[0] == "spawn" and o[2][0] != "ret":
                c = dict(case)
                c["actors"] = [list(x) for x in acts]
                c["actors"][i] = list(ops)
                c["actors"][i][j] = ["spawn", o[1], ["ret", o[1]]]
                yield c


# ---------------------------------------------------------------------------
# execution
# ---------------------------------------------------------------------------


def execute(case, chooser):
    if case.get("mode") == "e2e":
        return execute_e2e(case, chooser)
    strategy = dict(case.get("strategy") or {"kind": "uniform"})
    w = World(chooser, strategy=strategy, max_steps=20000, max_time=600.0)
    s = w.sched
    if strategy.get("kind") == "pct":
        s.pct_changes = set(strategy.get("changes", ()))
    if case.get("preempt"):
        s.preempt_plan = set(case["preempt"])
    gb = w.gb
    em = w.execmodel_for(None, case["backend"])
    pool = gb.WorkerPool(em, hasprimary=case["hasprimary"])
    gated = case["backend"] == "main_thread_only" and case["hasprimary"]
    H = []  # (seq, actor, opi, phase, data)
    fstart = {}  # tid -> [seq...]
    fend = {}  # tid -> seq
    latches = [Latch(s) for _ in range(case["nlatch"])]
    fn_done_latch = {}
    replies = {}
    st = {"shutdown_invoked": None, "primary_left": None, "primary_entered": None, "closer": 0}

    def make_fn(tid, fn):
        kind = fn[0]
        done = fn_done_latch.setdefault(tid, Latch(s))

        def task_fn():
            fstart.setdefault(tid, []).append(s.next_seq())
            try:
                if kind == "ret":
                    return ("v", tid)
                if kind == "retobj":
                    return make_retobj(fn[1], tid)
                if kind == "raise":
                    cls = FnError if fn[1] == "FnError" else EXC[fn[1]]
                    raise cls("boom", tid)
                if kind == "sleep":
                    em.sleep(fn[1])
                    return ("v", tid)
                if kind == "block":
                    latches[fn[1]].wait()
                    return ("v", tid)
                raise HarnessError(f"bad fn {fn}")
            finally:
                fend[tid] = s.next_seq()
                done.set()

        task_fn.__name__ = f"fn{tid}"
        return task_fn

    def actor(ai, ops):
        cur = s.current
        last_spawn = None
        for oi, op in enumerate(ops):
            k = op[0]
            if k == "spawn" and gated and last_spawn is not None:
                # gateway submission protocol: next task only after the previous function returned
                fn_done_latch[last_spawn].wait()
            cur.op = (ai, oi, k)
            H.append((s.next_seq(), ai, oi, "inv", op))
            res = None
            try:
                if k == "spawn":
                    r = pool.spawn(make_fn(op[1], op[2]))
                    replies[op[1]] = r
                    last_spawn = op[1]
                    res = ("ok",)
                elif k in ("get", "waitfinish"):
                    r = replies.get(op[1])
                    if r is None:
                        res = ("skipped",)
                    else:
                        v = getattr(r, k)(op[2]) if op[2] is not None else getattr(r, k)()
                        res = ("ret", canon_ret(v))
                elif k == "waitall":
                    res = ("ret", pool.waitall(op[1]) if op[1] is not None else pool.waitall())
                elif k == "trigger":
                    if st["shutdown_invoked"] is None:
                        st["shutdown_invoked"] = H[-1][0]
                    pool.trigger_shutdown()
                    res = ("ret", None)
                elif k == "terminate":
                    if st["shutdown_invoked"] is None:
                        st["shutdown_invoked"] = H[-1][0]
                    res = ("ret", pool.terminate(op[1]) if op[1] is not None else pool.terminate())
                elif k == "release":
                    latches[op[1]].set()
                    res = ("ret", None)
                elif k == "yield":
                    for _ in range(op[1]):
                        s.switch("yield", "")
                    res = ("ret", None)
                elif k == "sleep":
                    em.sleep(op[1])
                    res = ("ret", None)
                else:
                    raise HarnessError(f"bad op {op}")
            except HarnessError:
                raise
            except BaseException as e:  # noqa: BLE001
                if type(e).__name__ == "TaskKilled":
                    raise
                res = ("exc", type(e).__name__, _args(e))
            H.append((s.next_seq(), ai, oi, "ret", res))
            cur.op = None

    def primary():
        for _ in range(case.get("primary_delay", 0)):
            s.switch("yield", "")
        st["primary_entered"] = s.next_seq()
        try:
            pool.integrate_as_primary_thread()
        except BaseException as e:  # noqa: BLE001
            if type(e).__name__ == "TaskKilled":
                raise
            st["primary_exc"] = (type(e).__name__, _args(e))
        st["primary_left"] = s.next_seq()

    def closer():
        if st["shutdown_invoked"] is None:
            st["shutdown_invoked"] = s.next_seq()
        pool.trigger_shutdown()
        st["closer_done"] = s.next_seq()

    def on_quiescent():
        pending = [l for l in latches if not l.flag]
        if pending:
            for l in pending:
                l.set()
            s.probe("closer:released-latches")
            return True
        if st["closer"] == 0:
            st["closer"] = 1
            if st["shutdown_invoked"] is None:
                s.probe("closer:triggered-shutdown")
            s.spawn(closer, name="closer")
            return True
        return False

    s.on_quiescent = on_quiescent
    if case["hasprimary"]:
        s.spawn(primary, name="primary")
    for ai, ops in enumerate(case["actors"]):
        s.spawn(actor, (ai, ops), name=f"actor{ai}")
    reason = w.run()
    if reason not in ("quiescent",):
        raise HarnessError(f"run ended with {reason}")
    if w.leaked:
        raise HarnessError(f"{w.leaked} task threads leaked")

    viol = oracle(case, H, fstart, fend, st, s)
    accepted = sum(1 for h in H if h[3] == "ret" and case["actors"][h[1]][h[2]][0] == "spawn"
                   and h[4] == ("ok",))
    feats = set()
    for h in H:
        if h[3] == "ret":
            feats.add((case["actors"][h[1]][h[2]][0], h[4][0], h[4][1] if h[4][0] == "exc" else ""))
    sample = None
    if chooser.rng is not None and chooser.rng.random() < 0.002:
        sample = {"case": case, "history": [list(map(_plain, h)) for h in H][:60],
                  "fn_runs": {str(k): len(v) for k, v in fstart.items()}}
    return {
        "violations": viol, "digest": s.digest(), "sim_time": s.now, "steps": s.step,
        "switches": s.switches, "stats": dict(s.stats),
        "nontrivial": accepted > 0 and len(chooser.trace) > 0,
        "features": feats, "sample": sample,
    }


def _args(e):
    try:
        return repr(e.args)[:120]
    except Exception:  # noqa: BLE001
        return "?"


def _plain(x):
    if isinstance(x, (int, float, str, type(None), bool)):
        return x
    return repr(x)[:160]


# ---------------------------------------------------------------------------
# oracle over the history
# ---------------------------------------------------------------------------


def oracle(case, H, fstart, fend, st, s):
    V = []
    key = f"primary={int(case['hasprimary'])}"
    inv = {}
    ret = {}
    for seq, ai, oi, ph, data in H:
        (inv if ph == "inv" else ret)[(ai, oi)] = (seq, data)
    spawns = {}  # tid -> dict
    shutdown_ret = None
    for (ai, oi), (seq, op) in inv.items():
        k = op[0]
        r = ret.get((ai, oi))
        if k == "spawn":
            spawns[op[1]] = {"inv": seq, "ret": r[0] if r else None, "res": r[1] if r else None,
                             "fn": op[2]}
        if k in ("trigger", "terminate") and r is not None:
            # the shutdown has been triggered for sure once either call has returned (terminate = trigger + waitall)
            shutdown_ret = r[0] if shutdown_ret is None else min(shutdown_ret, r[0])
    if st.get("closer_done") is not None:
        shutdown_ret = st["closer_done"] if shutdown_ret is None else min(shutdown_ret, st["closer_done"])
    sd_inv = st["shutdown_invoked"]

    # 1/2/3: spawn outcomes
    for tid, sp in sorted(spawns.items()):
        res = sp["res"]
        if res is None:
            V.append(v("spawn-blocked-forever", key, f"spawn of task {tid} never returned"))
            continue
        if res[0] == "exc":
            if res[1] != "ValueError":
                V.append(v("spawn-raised-other", key, f"task {tid}: {res[1]}{res[2]}"))
            elif sd_inv is None or sd_inv > sp["ret"]:
                V.append(v("spawn-refused-without-shutdown", key, f"task {tid}"))
            if fstart.get(tid):
                V.append(v("refused-task-ran", key, f"task {tid}"))
            continue
        # accepted
        if shutdown_ret is not None and shutdown_ret < sp["inv"]:
            V.append(v("spawn-accepted-after-shutdown", key,
                       f"task {tid} accepted at seq {sp['inv']} after trigger_shutdown returned at {shutdown_ret}"))
        runs = len(fstart.get(tid, ()))
        if runs == 0:
            V.append(v("task-lost", key, f"accepted task {tid} {sp['fn']} never ran "
                                        f"(spawn returned at seq {sp['ret']}, shutdown invoked at {sd_inv})"))
        elif runs > 1:
            V.append(v("task-ran-twice", key, f"task {tid} ran {runs} times"))
        elif tid not in fend:
            V.append(v("task-never-finished", key, f"task {tid}"))

    accepted = {t: sp for t, sp in spawns.items() if sp["res"] == ("ok",)}
    # 4: get / waitfinish
    for (ai, oi), (seq, op) in inv.items():
        if op[0] not in ("get", "waitfinish"):
            continue
        tid = op[1]
        r = ret.get((ai, oi))
        sp = accepted.get(tid)
        if r is not None and r[1] == ("skipped",):
            continue
        if sp is None:
            continue
        fe = fend.get(tid)
        fn = sp["fn"]
        if r is None:
            if fe is not None:
                V.append(v("get-lost-wakeup", key, f"{op[0]}({tid}) blocked forever though the task finished"))
            continue
        rseq, res = r
        if res[0] == "ret":
            if fe is None or fe > rseq:
                V.append(v("get-returned-before-finish", key, f"{op[0]}({tid})"))
            if op[0] == "get":
                if fn[0] == "raise":
                    V.append(v("get-wrong-result", key, f"get({tid}) returned {res[1]!r}, function raised"))
                elif fn[0] == "retobj":
                    if res[1] != canon_ret(make_retobj(fn[1], tid)):
                        V.append(v("get-wrong-result", key + ";retobj=" + fn[1], f"get({tid}) returned {res[1]!r}"))
                elif res[1] != ("v", tid):
                    V.append(v("get-wrong-result", key, f"get({tid}) returned {res[1]!r}"))
        else:
            name, args = res[1], res[2]
            is_timeout = name == "OSError" and "timeout" in args and not (
                fn[0] == "raise" and fn[1] == "OSError")
            if fn[0] == "raise" and fn[1] == "OSError" and name == "OSError" and "boom" not in args:
                is_timeout = True
            if is_timeout:
                if op[2] is None:
                    V.append(v("get-timeout-without-timeout", key, f"{op[0]}({tid})"))
                elif fe is not None and fe < seq and op[2] > 0:
                    # sound only for a positive timeout: the function had returned before the call was
                    # made, so the thread completing the Reply is runnable and the simulated clock cannot
                    # reach the deadline before it has set the result
                    V.append(v("get-timeout-though-finished", key,
                               f"{op[0]}({tid}, {op[2]}) timed out, task finished before the call"))
            elif op[0] == "get" and fn[0] == "raise":
                if name != fn[1] or args != repr(("boom", tid)):
                    V.append(v("get-wrong-exception", key, f"get({tid}) raised {name}{args}, expected {fn[1]}"))
            else:
                V.append(v("get-wrong-exception", key, f"{op[0]}({tid}) raised {name}{args}; fn={fn}"))

    # 5: waitall / terminate
    for (ai, oi), (seq, op) in inv.items():
        if op[0] not in ("waitall", "terminate"):
            continue
        r = ret.get((ai, oi))
        if r is None:
            unfinished = [t for t, sp in accepted.items() if t not in fend]
            if not unfinished:
                V.append(v("waitall-lost-wakeup", key,
                           f"{op[0]}({op[1]}) blocked forever, every accepted task has finished"))
            continue
        rseq, res = r
        if res[0] == "exc":
            V.append(v("waitall-raised", key, f"{op[0]} raised {res[1]}{res[2]}"))
            continue
        if res[1] is True:
            bad = [t for t, sp in accepted.items()
                   if sp["ret"] < seq and (fend.get(t) is None or fend[t] > rseq)]
            if bad:
                V.append(v("waitall-true-with-unfinished", key,
                           f"{op[0]} returned True at seq {rseq} while tasks {bad} were unfinished"))
        elif res[1] is False:
            if op[1] is None:
                V.append(v("waitall-false-without-timeout", key, f"{op[0]}"))
            else:
                # sound only for a positive timeout and tasks that had finished before the call:
                # their bookkeeping threads are runnable, so simulated time cannot pass first
                so_far = [t for t, sp in spawns.items() if sp["inv"] < rseq]
                pending = [t for t in so_far
                           if spawns[t]["ret"] is None or spawns[t]["ret"] > seq
                           or (spawns[t]["res"] == ("ok",) and (fend.get(t) is None or fend[t] > seq))]
                if not pending and op[1] > 0:
                    V.append(v("waitall-false-with-all-finished", key,
                               f"{op[0]}({op[1]}) timed out at seq {rseq} though all accepted tasks had finished"))
        else:
            V.append(v("waitall-nonbool", key, f"{res[1]!r}"))

    # 6: primary leaves after shutdown
    if case["hasprimary"] and st["primary_entered"] is not None:
        if st.get("primary_exc"):
            V.append(v("primary-raised", key, f"{st['primary_exc']}"))
        elif st["primary_left"] is None and sd_inv is not None:
            unfinished = [t for t in accepted if t not in fend and fstart.get(t)]
            if not unfinished:
                V.append(v("primary-not-left", key, "integrate_as_primary_thread did not return after shutdown"))
    return V


def v(rule, key, detail):
    return {"rule": rule, "key": key, "detail": detail}
