"""C10 - callback receivers see every item once, in order, then one endmarker.

setcallback is placed before / between / after in-flight items and relative to the peer's close; endings: end of
the remote body, explicit close of a sub-channel, RemoteError, connection loss (SIGKILL of the worker at a generated
point); receive() probes after setcallback; MultiChannel.make_receive_queue over 2-3 gateways.
Oracle: callback sequence == wire order (independent parser) from the hand-over point on, then the endmarker once.
"""

from __future__ import annotations

from vsim import gwsim, wire

from . import chanlib as L
from .chanlib import v

PROP = "C10"
LEVEL = "exploration"
BUDGET = {
    "quick": {"budget_s": 45, "chunk": 80, "shrink_s": 40},
    "thorough": {"budget_s": 900, "chunk": 200, "shrink_s": 120},
}
RULE = (
    "cases: a sender (either side) emits 0-8 items and ends by end-of-body / raise / explicit close of a sub-channel / "
    "SIGKILL at a generated point (also of a proxied sub); the endmarker value varies (object, None, 0, False, ''); the "
    "receiver may drop its channel object or close it locally before setcallback; a second task of the receiving side may close() the channel while the peer's end is on its way; the callback may close() its channel on the endmarker; a sub-channel's peer end may be dropped with a callback (last-message) instead of closed; the receiver first takes 0-k items with receive(), then calls setcallback (with or "
    "without endmarker) early, after m items were sent, or after the sender has finished, then probes receive(); plus "
    "MultiChannel.make_receive_queue over 2-3 gateways; transports popen/bare/socket/proxy, small pipes, schedules with "
    "0-3 line preemptions.  Non-trivial = at least one callback invocation under a schedule with real choices."
)
ASSUMPTIONS = [
    "only peer-side endings are judged (a local close() racing the receiver thread is outside the statement)",
    "after a SIGKILL every frame completely accepted by the simulated kernel is still readable (pipe semantics)",
    "schedules sampled (sync points + <=3 line preemptions)",
]
COMPONENTS = {
    "real": ["Channel.setcallback/receive", "ChannelFactory._local_receive/_local_close/_no_longer_opened/"
             "_finished_receiving", "multi.MultiChannel.make_receive_queue", "receiver thread", "Group.remote_exec"],
    "stub": ["kernel pipes/sockets/processes/signals (vsim)"],
}


ENDKINDS = ["obj", "obj", "obj", "none", "none", "zero", "false", "empty"]  # None / falsy endmarkers are endmarkers too


def gen_remat(rng, tier):
    """The receiver registers a callback on a sub-channel and drops the channel object (the callback stays active);
    then the same channel comes back to it inside an item and it keeps that new object for the same id alive: the
    callback, not the new object's queue, still gets every item and the endmarker."""
    transport = rng.choices(["popen", "bare", "socket", "proxy"], [55, 10, 20, 15])[0]
    backend = rng.choice(["thread", "thread", "main_thread_only", "gevent"])
    specs, gwi = L.gateways_for(transport, backend)
    knobs = L.gen_knobs(rng, small_ok=False)
    if transport != "popen" and knobs["pipe_cap"] < 4096:
        knobs["pipe_cap"] = 4096
    want_end = rng.random() < 0.7
    n1, n2 = rng.randrange(0, 3), rng.randrange(1, 5)
    main = [["exec", "c0", 1, gwi], ["newchan", "s"], ["sendchan", "c0", "s", "c0:i2w:0:chan", "bare"],
            ["spawn", 2], ["join", 2, 900], ["latch_set", "fin"], ["terminate", 10.0]]
    W = [["recvchan", "c0", "s"]]
    for k in range(n1):
        W.append(["send", "s", f"s:w2i:1:{k}", L.gen_fill(rng)])
    W += [["latch_wait", "dropped", 300], ["sendchan", "c0", "s", "c0:w2i:1:chan2", rng.choice(["bare", "list", "dict"])],
          ["latch_wait", "back", 300]]
    for k in range(n1, n1 + n2):
        W.append(["send", "s", f"s:w2i:1:{k}", L.gen_fill(rng)])
        if rng.random() < 0.2:
            W.append(["yield", rng.randrange(1, 4)])
    W += [["latch_set", "sent-m"], ["latch_set", "sent-all"], ["close", "s"], ["latch_set", "closed"], ["latch_wait", "fin", 900]]
    R = [["setcb", "s", want_end, None, None, None, "cb-end"], ["drop", "s"], ["gc"], ["latch_set", "dropped"],
         ["recvchan", "c0", "s2"], ["latch_set", "back"],
         (["latch_wait", "cb-end", 600] if want_end else ["waitclose", "s2", 600]), ["sleep", 0.5]]
    actors = [{"side": "i", "gw": gwi, "chan": None, "ops": main}, {"side": "w", "gw": gwi, "chan": "c0", "ops": W},
              {"side": "i", "gw": gwi, "chan": "c0", "ops": R}]
    return {"gateways": specs, "actors": actors, "knobs": knobs, "strategy": L.gen_strategy(rng),
            "preempt": L.gen_preempt(rng, 3000), "preempt_at": L.gen_preempt_at(rng, ["setcallback", "_local_close", "_local_receive", "_no_longer_opened", "new", "__del__"]),
            "faults": [], "transport": transport, "backend": backend, "gwi": gwi, "mode": "single", "ending": "close_sub",
            "subject": "s", "recv_side": "i", "dir": "w2i", "R": 2, "S": 1, "want_end": want_end, "pre": 0, "pos": "remat",
            "n": n1 + n2, "race": False, "lastmsg": False, "endmarker_kind": rng.choice(ENDKINDS)}


def gen(rng, tier):
    if rng.random() < 0.2:
        return gen_multi(rng, tier)
    if rng.random() < 0.08:
        return gen_remat(rng, tier)
    ending = rng.choice(["endbody", "endbody", "raise", "close_sub", "close_sub", "kill"])
    # the peer's end of a sub channel can also go away by being dropped while it has a callback of its own: the
    # receiving side is told "last message" and stays in the sendonly state
    lastmsg = ending == "close_sub" and rng.random() < 0.4
    transport = rng.choices(["popen", "bare", "socket", "proxy"], [55, 10, 20, 15])[0]
    backend = rng.choice(["thread", "thread", "main_thread_only", "gevent"])
    specs, gwi = L.gateways_for(transport, backend)
    knobs = L.gen_knobs(rng, small_ok=transport == "popen")
    if transport != "popen" and knobs["pipe_cap"] < 4096:
        knobs["pipe_cap"] = 4096
    recv_side = "i" if ending in ("raise", "kill") else rng.choice(["i", "i", "w"])
    if ending == "endbody":
        recv_side = "i"
    n = rng.randrange(0, 9)
    pre = rng.randrange(0, min(n, 2) + 1) if rng.random() < 0.3 else 0
    want_end = rng.random() < 0.6
    actors = [{"side": "i", "gw": gwi, "chan": None, "ops": []}]
    main = actors[0]["ops"]
    W = {"side": "w", "gw": gwi, "chan": "c0", "ops": []}
    actors.append(W)
    main.append(["exec", "c0", 1, gwi])
    faults = []
    T = "c0"
    send_side = "w" if recv_side == "i" else "i"
    if ending == "close_sub":
        T = "s"
        creator = rng.choice(["i", "w"])
        if creator == "i":
            main += [["newchan", "s"], ["sendchan", "c0", "s", "c0:i2w:0:chan", "bare"]]
            W["ops"] += [["recvchan", "c0", "s"]]
        else:
            W["ops"] += [["newchan", "s"], ["sendchan", "c0", "s", "c0:w2i:1:chan", "list"]]
            main += [["recvchan", "c0", "s"]]
    d = "w2i" if send_side == "w" else "i2w"
    # sender ops
    sops = []
    m = rng.randrange(0, n + 1)
    S_aid = 1 if send_side == "w" else None
    if send_side == "i":
        actors.append({"side": "i", "gw": gwi, "chan": "c0", "ops": []})
        S_aid = len(actors) - 1
    for k in range(n):
        if k == m:
            sops.append(["latch_set", "sent-m"])
        sops.append(["send", T, f"{T}:{d}:{S_aid}:{k}", L.gen_fill(rng)])
        if rng.random() < 0.15:
            sops.append(["yield", rng.randrange(1, 4)])
    if m >= n:
        sops.append(["latch_set", "sent-m"])
    sops.append(["latch_set", "sent-all"])
    if ending == "raise":
        sops.append(["raise", "body boom"])
    elif ending == "close_sub":
        if lastmsg:
            sops += [["setcb", "s", False, None], ["drop", "s"], ["gc"]]
        else:
            sops.append(["close", "s"])
        sops.append(["latch_set", "closed"])
    elif ending == "kill":
        # SIGKILL the worker when one of its sends is invoked / has returned, or at a random step
        sends = [i for i, o in enumerate(sops) if o[0] == "send"]
        if sends and rng.random() < 0.7:
            at = ["op", 1, len(W["ops"]) + rng.choice(sends), rng.choice(["inv", "ret"])]
        else:
            at = ["rstep", rng.randrange(1, 900)]
        # (proxied: the sub is killed, the forwarder reports the end of its stream to the initiator)
        faults.append({"at": at, "do": ["kill", "w2" if transport == "proxy" else "w1"]})
        sops.append(["sleep", 500.0])
    # receiver ops
    rops = []
    for _ in range(pre):
        rops.append(["recv", T])
    pos = rng.choice(["early", "mid", "late"])
    if pos == "mid":
        rops.append(["latch_wait", "sent-m", 300])
        if rng.random() < 0.5:
            rops.append(["yield", rng.randrange(1, 20)])
    elif pos == "late":
        if ending in ("endbody", "raise") and send_side == "w":
            rops.append(["join", 1, 300])
        elif ending == "close_sub":
            rops.append(["latch_wait", "closed", 300])
        else:
            rops.append(["latch_wait", "sent-m", 300])
        rops.append(["sleep", 1.0])
    if ending == "kill" and pos == "late" and recv_side == "i" and rng.random() < 0.5:
        # connection already lost (channel in the sendonly state), ordinary local clean-up, and only then the callback
        rops.append(["sleep", 20.0])
        rops.append(["close", T])
    rops.append(["setcb", T, want_end, None, None, None, "cb-end", want_end and rng.random() < 0.3])
    dropped = want_end and recv_side == "i" and T == "c0" and rng.random() < 0.25
    if dropped:
        # the callback stays active although the channel object is gone: the endmarker must still arrive
        rops.append(["drop", T])
        rops.append(["gc"])
    else:
        rops.append(["recv", T])  # must be refused with OSError
    if want_end:
        rops.append(["latch_wait", "cb-end", 600])
    else:
        rops.append(["waitclose", T, 600])
    rops.append(["sleep", 0.5])
    if not dropped:
        rops.append(["recv", T])
    race = False
    if recv_side == "i":
        actors.append({"side": "i", "gw": gwi, "chan": "c0", "ops": rops})
        R_aid = len(actors) - 1
        if send_side == "i":
            raise AssertionError
        W["ops"] += sops
        if ending == "close_sub":
            W["ops"].append(["latch_wait", "fin", 900])
        race = not dropped and rng.random() < 0.25
        if race:
            # another task of the receiving side closes the channel locally while the peer's own end (close, end of
            # the body, error, death) is on its way: both paths unregister the callback, one endmarker all the same
            actors.append({"side": "i", "gw": gwi, "chan": "c0",
                           "ops": [["latch_wait", "sent-all", 300], ["yield", rng.randrange(0, 30)], ["close", T]]})
            main += [["spawn", len(actors) - 1]]
        main += [["spawn", R_aid], ["join", R_aid, 900]] + ([["join", len(actors) - 1, 900]] if race else []) + [["latch_set", "fin"]]
    else:
        # receiver on the worker, sender on the initiator
        R_aid = 1
        actors[S_aid]["ops"] = sops
        W["ops"] += rops
        main += [["spawn", S_aid], ["join", S_aid, 900], ["join", 1, 900]]
    main.append(["terminate", 10.0])
    pat = L.gen_preempt_at(rng, ["setcallback", "_local_close", "_local_receive", "_no_longer_opened", "_finished_receiving", "_thread_receiver", "make_receive_queue"])
    if race and rng.random() < 0.7:
        # the two unregistering paths meet inside _no_longer_opened / close
        pat = [[rng.choice(["_no_longer_opened", "_no_longer_opened", "close", "_local_close"]), rng.randrange(1, 16)]
               for _ in range(rng.randrange(1, 4))]
    return {"gateways": specs, "actors": actors, "knobs": knobs, "strategy": L.gen_strategy(rng),
            "preempt": L.gen_preempt(rng, 3000), "preempt_at": pat, "faults": faults, "transport": transport, "backend": backend,
            "gwi": gwi, "mode": "single", "ending": ending, "subject": T, "recv_side": recv_side, "dir": d,
            "R": R_aid, "S": S_aid, "want_end": want_end, "pre": pre, "pos": pos, "n": n, "race": race, "lastmsg": lastmsg,
            "endmarker_kind": rng.choice(ENDKINDS)}


def gen_multi(rng, tier):
    ng = rng.choice([2, 2, 3])
    backend = rng.choice(["thread", "gevent"])
    specs = [f"popen//id=g{i}//execmodel={backend}" for i in range(ng)]
    knobs = L.gen_knobs(rng, small_ok=True)
    want_end = rng.random() < 0.6
    actors = [{"side": "i", "gw": 0, "chan": None, "ops": []}]
    main = actors[0]["ops"]
    labels = []
    total = 0
    for gi in range(ng):
        label = f"m{gi}"
        labels.append(label)
        aid = len(actors)
        n = rng.randrange(0, 6)
        total += n
        ops = [["send", label, f"{label}:w2i:{aid}:{k}", L.gen_fill(rng)] for k in range(n)]
        if rng.random() < 0.3:
            ops.insert(rng.randrange(0, len(ops) + 1), ["yield", rng.randrange(1, 5)])
        actors.append({"side": "w", "gw": gi, "chan": label, "ops": ops})
        main.append(["exec", label, aid, gi])
    if rng.random() < 0.5:
        main.append(["yield", rng.randrange(1, 40)])
    main.append(["mc_make", "mc", labels])
    main.append(["mc_drain", "mc", labels, want_end, total, 300.0])
    for label in labels:
        main.append(["waitclose", label, 300])
    main.append(["terminate", 10.0])
    return {"gateways": specs, "actors": actors, "knobs": knobs, "strategy": L.gen_strategy(rng),
            "preempt": L.gen_preempt(rng, 3000), "preempt_at": L.gen_preempt_at(rng, ["setcallback", "_local_close", "_local_receive", "_no_longer_opened", "_finished_receiving", "_thread_receiver", "make_receive_queue"]), "faults": [], "transport": "popen", "backend": backend, "gwi": 0,
            "mode": "multi", "labels": labels, "want_end": want_end, "endmarker_kind": rng.choice(ENDKINDS)}


def shrink_cases(case):
    if case.get("preempt_at"):
        for i in range(len(case["preempt_at"])):
            c = dict(case)
            c["preempt_at"] = case["preempt_at"][:i] + case["preempt_at"][i + 1:]
            yield c
    if case.get("preempt"):
        for i in range(len(case["preempt"])):
            c = dict(case)
            c["preempt"] = case["preempt"][:i] + case["preempt"][i + 1:]
            yield c
    k = case["knobs"]
    if k.get("chunk") != "greedy" or k.get("pipe_cap") != 65536:
        c = dict(case)
        c["knobs"] = dict(k, chunk="greedy", pipe_cap=65536)
        yield c


def execute(case, chooser):
    res = gwsim.run_case(case, chooser, max_steps=150_000)
    gwsim.check_harness(res)
    hist = L.Hist(res)
    if case["mode"] == "multi":
        V, ncb = oracle_multi(case, res, hist)
        feats = {("multi", len(case["labels"]), case["want_end"])}
    else:
        V, ncb = oracle(case, res, hist)
        feats = {(case["transport"], case["ending"], case["recv_side"], case["pos"], case["want_end"], case["pre"], case.get("race", False))}
    sample = None
    if chooser.rng is not None and chooser.rng.random() < 0.004:
        sample = {k: case.get(k) for k in ("mode", "transport", "backend", "ending", "pos", "want_end", "pre", "n",
                                           "knobs", "strategy", "preempt", "faults")}
        sample["actors"] = [{"side": a["side"], "ops": [o[:3] for o in a["ops"]]} for a in case["actors"]]
    return gwsim.summarize(res, chooser, nontrivial=ncb > 0 and len(chooser.trace) > 0, feats=feats,
                           sample=sample, violations=V)


def wire_tokens_for(case, res, hist, label, direction):
    ids = hist.chan_ids()
    tw, fw = L.target_pipes(res)
    if tw is None or ids.get(label) is None:
        return None
    pipe, dname = (fw, "from_worker") if direction == "w2i" else (tw, "to_worker")
    frames, end, bad, total = L.wire_frames(pipe, dname)
    return [t for t in wire.data_tokens_by_channel(frames).get(ids[label], []) if t and ":chan" not in t]


def oracle(case, res, hist):
    T = case["subject"]
    key0 = f"{case['ending']};{case['recv_side']}"
    allow = {("recv", "OSError"), ("recv", "EOFError"), ("recv", "RemoteError"), ("waitclose", "RemoteError"),
             ("waitclose", "EOFError"), ("send", "OSError"), ("sleep", "KeyboardInterrupt")}
    blocked_ok = ()
    if case["ending"] == "kill":
        allow |= {("*", "EOFError"), ("*", "OSError")}
    V = L.generic_rules(res, hist, allow_exc=allow, key=key0)
    R = case["R"]
    ops = case["actors"][R]["ops"]
    cb_oi = [i for i, o in enumerate(ops) if o[0] == "setcb"][0]
    # items taken with receive() before setcallback
    pre_toks = []
    for oi, op in enumerate(ops[:cb_oi]):
        if op[0] == "recv":
            r = hist.ret.get((R, oi))
            if r and r[1][0] == "item":
                pre_toks.append(r[1][1])
    cbs = hist.cb.get((R, cb_oi), [])
    items = [(s, d[1]) for s, d in cbs if d[0] == "item"]
    ends = [s for s, d in cbs if d[0] == "end"]
    toks = [t for _, t in items]
    setcb_ret = hist.ret.get((R, cb_oi))
    if setcb_ret is None or setcb_ret[1][0] != "ok":
        return V, len(items)
    # rare-condition probes: the hand-over from queue to callback actually happened inside setcallback
    if any(s_ < setcb_ret[0] for s_, _ in items):
        res.sched.probe("setcallback-drained-queued-items")
    if any(s_ < setcb_ret[0] for s_ in ends):
        res.sched.probe("endmarker-fired-inside-setcallback")
    if items and any(s_ > setcb_ret[0] for s_, _ in items) and any(s_ < setcb_ret[0] for s_, _ in items):
        res.sched.probe("callback-got-items-both-from-queue-and-receiver-thread")
    # receive() after setcallback must be refused
    for oi, op in enumerate(ops[cb_oi + 1:], cb_oi + 1):
        if op[0] == "recv":
            r = hist.ret.get((R, oi))
            if r is not None and not (r[1][0] == "exc" and r[1][1] == "OSError"):
                V.append(v("receive-not-refused-after-setcallback", key0, f"{r[1]}"))
    # did the receiver see the end?  (its wait op returned)
    wait_oi = [i for i, o in enumerate(ops) if i > cb_oi and o[0] in ("latch_wait", "waitclose")][0]
    wr = hist.ret.get((R, wait_oi))
    ended = wr is not None and (wr[1] == ("val", True) or wr[1][0] in ("ok", "exc"))
    if case["want_end"] and wr is not None and wr[1] == ("val", False):
        was_dropped = any(o[0] == "drop" for o in ops)
        # the connection counts as lost only if the kill fired well before the wait gave up (a kill scheduled by
        # step count can land after the simulated clock has already jumped over the whole 600 s wait; the worker's
        # body has then ended normally at 500 s, which is the listed dropped-receiver case, not a lost connection)
        t_gaveup = res.ctx.seq_time.get(wr[0], 0.0)
        killed_in_time = (case["ending"] == "kill" and bool(res.fault_log)
                          and res.fault_log[0][1] + 50.0 <= t_gaveup)
        if was_dropped and not killed_in_time:
            # receiver dropped its channel object (callback stays registered), then the peer ended normally
            V.append(v("endmarker-never-delivered", "dropped-receiver;peer-ended-normally",
                       "callback channel object dropped, then the remote side finished: no endmarker within 600 s"))
        else:
            V.append(v("endmarker-never-delivered", key0 + (";dropped-receiver" if was_dropped else ""),
                       "no endmarker within 600 simulated seconds after the stream ended"))
        ended = False
    if len(set(toks)) != len(toks):
        V.append(v("dup-item", key0, f"callback got {toks}"))
    if len(ends) > 1:
        V.append(v("endmarker-count", f"{key0};n={min(len(ends), 3)}", f"endmarker delivered {len(ends)} times"))
    if ends and not case["want_end"]:
        V.append(v("endmarker-not-requested", key0, "endmarker delivered though none was requested"))
    race = case.get("race", False)
    if ends and items and items[-1][0] > ends[0] and not race:
        # (a local close of the receiving side is not one of the ends the property speaks of: an item in the
        # receiver thread's hands at that moment may still be handed over afterwards)
        V.append(v("item-after-endmarker", key0, f"item {items[-1][1]} after the endmarker"))
    proxied_kill = case["transport"] == "proxy" and case["ending"] == "kill"
    W = wire_tokens_for(case, res, hist, T, case["dir"]) if case["transport"] != "proxy" else None
    if W is None:
        # proxied: what the sub wrote is not what reached the survivor (after the sub's death the forwarder's proxy
        # channel may be closed by a failing write towards the dead sub while complete frames of the sub are still
        # waiting to be forwarded).  Program order of the single sender: for a killed sub every invoked send may or
        # may not have made it, otherwise the acknowledged ones have.
        W = []
        for aid, oi, op, s1, s2, r in hist.ops(("send",)):
            if aid == case["S"] and op[1] == T and (proxied_kill or (r is not None and r[0] == "ok")):
                W.append(op[2])
    rest = [t for t in W if t not in pre_toks]
    if pre_toks != W[:len(pre_toks)]:
        V.append(v("reorder", key0, f"receive() before setcallback got {pre_toks}, wire order {W}"))
    if toks != rest[:len(toks)]:
        V.append(v("reorder", key0, f"callback sequence {toks} is not a prefix of the remaining wire order {rest}"))
    elif ended and len(toks) < len(rest) and not proxied_kill and not race:
        V.append(v("lost-item", key0, f"stream ended, callback got {toks}, wire order (after {len(pre_toks)} received) {rest}"))
    if ended and case["want_end"] and len(ends) == 0:
        V.append(v("endmarker-count", f"{key0};n=0", "endmarker requested, never delivered"))
    return V, len(items) + len(ends)


def oracle_multi(case, res, hist):
    key0 = "multi"
    V = L.generic_rules(res, hist, allow_exc=set(), key=key0)
    mc_oi = [i for i, o in enumerate(case["actors"][0]["ops"]) if o[0] == "mc_drain"][0]
    r = hist.ret.get((0, mc_oi))
    subs = hist.sub.get((0, mc_oi), [])
    if r is not None and r[1][0] == "timeout":
        V.append(v("multichannel-queue-starved", key0, f"make_receive_queue: still waiting for {r[1][1:]} after 300 s"))
    n = 0
    for label in case["labels"]:
        seq = [d for s, d in subs if d[-1] == label]
        toks = [d[1] for d in seq if d[0] == "item"]
        n += len(seq)
        sent = []
        for aid, oi, op, s1, s2, rr in hist.ops(("send",)):
            if op[1] == label and rr is not None and rr[0] == "ok":
                sent.append(op[2])
        if toks != sent[:len(toks)]:
            V.append(v("reorder", key0, f"{label}: queue gave {toks}, sent {sent}"))
        elif r is not None and r[1][0] == "ok" and case["want_end"] and toks != sent:
            V.append(v("lost-item", key0, f"{label}: queue gave {toks}, sent {sent}"))
        nend = sum(1 for d in seq if d[0] == "end")
        if case["want_end"]:
            if r is not None and r[1][0] == "ok" and nend != 1:
                V.append(v("endmarker-count", f"{key0};n={min(nend, 3)}", f"{label}: {nend} endmarkers"))
            if nend and seq[-1][0] != "end":
                V.append(v("item-after-endmarker", key0, f"{label}"))
        elif nend:
            V.append(v("endmarker-not-requested", key0, label))
    for d in [d for s, d in subs if d[-1] is None]:
        V.append(v("foreign-channel-in-queue", key0, f"{d}"))
    return V, n
