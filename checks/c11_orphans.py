"""C11 - workers never outlive their initiator.

The initiator process is SIGKILLed, exits, or just closes its write side at a generated moment (idle, in the middle
of a remote_exec submission or of a data frame - byte-exact cut -, during data transfer in either direction) while
the workers run generated programs (idle, blocked in receive, busy, sleeping, swallowing KeyboardInterrupt, extra
threads) on every backend; also a proxied sub whose forwarder (master) dies.  The real escalation ladder
(receiver EOF -> pool shutdown -> 5 s -> SIGINT -> 10 s -> os._exit) runs in simulated time.
"""

from __future__ import annotations

from vsim import gwsim

from . import chanlib as L
from . import c05_terminate as c05
from .chanlib import v

PROP = "C11"
LEVEL = "exploration"
BUDGET = {
    "quick": {"budget_s": 45, "chunk": 80, "shrink_s": 40},
    "thorough": {"budget_s": 900, "chunk": 200, "shrink_s": 120},
}
RULE = (
    "cases: topology (1-2 popen workers | master + via sub | master + socket member) x worker program (idle, receive-"
    "blocked, busy, sleeping, KeyboardInterrupt-swallowing, extra threads, callback left on a dropped channel (also one that raises when given the endmarker), further remote_execs refused on a busy main_thread_only worker; optionally after one or two bodies that ran to completion) x backend x death of the initiator (SIGKILL at "
    "a generated sync point, byte-exact cut of the initiator->worker stream, normal exit of the main thread, close of "
    "the write side only) or of the via master, optionally while an initiator task streams data.  Oracle: every worker "
    "(and sub) has exited within 16 simulated seconds per hop after the fault.  Non-trivial = the fault fired with at "
    "least one live worker; distinct = distinct event-log digests."
)
ASSUMPTIONS = [
    "bound = 15 s ladder + 1 s slack per hop (a proxied sub notices only when its forwarder has gone)",
    "initiator death before the worker consumed the bootstrap line exercises the stub and is excluded",
    "os.kill(os.getpid(), SIGINT) and os._exit are routed to the simulated process table; KeyboardInterrupt is raised "
    "in the worker's main task at its next sync point",
]
COMPONENTS = {
    "real": ["BaseGateway._thread_receiver", "WorkerGateway._terminate_execution", "WorkerGateway.serve",
             "WorkerPool.trigger_shutdown / waitall / integrate_as_primary_thread", "serve_proxy_io (forwarder)"],
    "stub": ["process table, signals, pipes/sockets, clock (vsim)"],
}


def gen(rng, tier):
    topo = rng.choices(["popen", "via", "socket"], [55, 30, 15])[0]
    specs = []
    members = []
    if topo == "popen":
        for i in range(rng.choice([1, 1, 2])):
            be = rng.choice(["thread", "thread", "main_thread_only", "gevent"])
            bare = rng.random() < 0.15
            specs.append((f"popen//python=/sim/bare-python3//id=p{i}//execmodel={be}" if bare
                          else f"popen//id=p{i}//execmodel={be}"))
            members.append((i, f"w{i + 1}", "member"))
    elif topo == "via":
        specs.append(f"popen//id=m//execmodel={rng.choice(['thread', 'gevent', 'main_thread_only'])}")
        members.append((0, "w1", "master"))
        be2 = rng.choice(["thread", "main_thread_only", "gevent"])
        specs.append(f"popen//via=m//id=s0//execmodel={be2}")
        members.append((1, "w2", "sub"))
    else:
        specs.append("popen//id=m//execmodel=thread")
        members.append((0, "w1", "master"))
        specs.append(f"socket//installvia=m//id=k//execmodel={rng.choice(['thread', 'main_thread_only', 'gevent'])}")
        members.append((1, "w1", "socket"))
    if topo == "via" and specs[0].endswith("main_thread_only"):
        pass
    actors = [{"side": "i", "gw": 0, "chan": None, "ops": []}]
    main = actors[0]["ops"]
    progs = {}
    for gi, pname, role in members:
        if role == "master":
            kind = "idle" if (topo == "socket" or specs[0].endswith("main_thread_only")) else rng.choice(["idle", "sleep", "recv"])
        else:
            kind = rng.choice(c05.PROGRAMS + ["cbdrop"])
        progs[gi] = kind
        if kind == "idle":
            continue
        label = f"c{gi}"
        aid = len(actors)
        actors.append({"side": "w", "gw": gi, "chan": label, "ops": []})
        if kind == "cbdrop":
            # the worker keeps a callback registered on a channel whose object it has dropped; the initiator holds
            # the other end, so nothing unregisters it before the connection goes away
            sub = f"s{gi}"
            actors[aid]["ops"] = [["send", label, f"{label}:w2i:x:started", ["none"]], ["newchan", sub],
                                  (["setcb", sub, True, 0] if rng.random() < 0.3 else  # ... whose endmarker call raises
                                   ["setcb", sub, rng.random() < 0.5, None]),
                                  ["sendchan", label, sub, f"{label}:w2i:x:chan", "bare"], ["drop", sub], ["gc"]]
            actors[aid]["ops"] += rng.choice([[], [["recv", label]], [["sleep", 1000.0]]])
        else:
            actors[aid]["ops"] = c05.prog_ops(rng, kind, label, actors, gi)
        if rng.random() < 0.4:
            # the worker has already run (and finished) other bodies: its execution pool has drained before
            for j in range(rng.choice([1, 1, 2])):
                main += [["exec_src", f"p{gi}_{j}", "channel.send(1)", gi], ["recv", f"p{gi}_{j}"],
                         ["waitclose", f"p{gi}_{j}", 60.0]]
        main.append(["exec", label, aid, gi])
        main.append(["recv", label])
        if kind in ("recv", "sleep", "busy") and "execmodel=main_thread_only" in specs[gi] and rng.random() < 0.5:
            # further remote_execs while the main thread is taken: each is refused after its grace period; the
            # receiver thread must stay available for the end of the connection all the same
            for j in range(rng.choice([1, 2, 2, 3])):
                main.append(["exec_src", f"o{gi}_{j}", "channel.send(1)", gi])
            if rng.random() < 0.5:
                main.append(["sleep", rng.choice([0.5, 1.5, 3.5])])
            progs[gi] = kind + "+overlap"
        if kind == "cbdrop":
            main.append(["recvchan", label, f"s{gi}"])
    # optional streaming of data towards a worker that receives (to die mid-transfer)
    streaming = False
    for gi, pname, role in members:
        if progs[gi] == "recv" and rng.random() < 0.5:
            aid = len(actors)
            actors.append({"side": "i", "gw": gi, "chan": f"c{gi}",
                           "ops": [["send", f"c{gi}", f"c{gi}:i2w:{aid}:{k}", ["bytes", rng.choice([10, 3000])]]
                                   for k in range(4)] + [["sleep", 100.0]]})
            main.append(["spawn", aid])
            streaming = True
            break
    how = rng.choice(["kill-step", "kill-step", "cut", "exit", "close-write", "kill-master"])
    if how == "kill-master" and topo != "via":
        how = "kill-step"
    faults = []
    main_exits = False
    victim = "init"
    if how == "kill-step":
        faults.append({"at": ["rstep", rng.randrange(1, 400)], "do": ["kill", "init"]})
        main.append(["sleep", 500.0])
    elif how == "cut":
        # byte-exact cut of the initiator->first-worker stream somewhere after the bootstrap line
        faults.append({"at": ["byte_after_boot", "w1.in", rng.randrange(0, 700)], "do": ["kill", "init"]})
        main.append(["exec_src", "late", "import time\nchannel.send(1)\n", 0])
        main.append(["sleep", 500.0])
    elif how == "exit":
        main_exits = True
        if rng.random() < 0.5:
            main.append(["sleep", rng.choice([0.0, 0.3, 2.0])])
    elif how == "close-write":
        faults.append({"at": ["rstep", rng.randrange(1, 300)], "do": ["close_write", "init"]})
        main.append(["sleep", 500.0])
    else:
        victim = "w1"
        faults.append({"at": ["rstep", rng.randrange(1, 300)], "do": ["kill", "w1"]})
        main.append(["sleep", 500.0])
    return {"gateways": specs, "actors": actors,
            "knobs": {"pipe_cap": rng.choice([64, 4096, 65536]) if topo == "popen" and not any("bare" in s for s in specs) else 65536,
                      "sock_cap": 65536, "chunk": rng.choice(["greedy", "random"])},
            "strategy": L.gen_strategy(rng), "preempt": [],
            "preempt_at": L.gen_preempt_at(rng, ["_terminate_execution", "_thread_receiver", "serve", "trigger_shutdown",
                                                 "integrate_as_primary_thread", "waitall", "executetask"], maxn=40, p=0.3),
            "faults": faults, "main_exits": main_exits, "topo": topo, "members": members,
            "progs": {str(k): val for k, val in progs.items()}, "how": how, "victim": victim, "streaming": streaming,
            }


def shrink_cases(case):
    if case.get("preempt_at"):
        c = dict(case)
        c["preempt_at"] = []
        yield c


def execute(case, chooser):
    res = gwsim.run_case(case, chooser, max_steps=400_000, max_time=700.0)
    gwsim.check_harness(res, allow_reasons=("quiescent", "time-cap"))
    hist = L.Hist(res)
    V, fired = oracle(case, res, hist)
    V += gwsim.livelock_violation(res, f"{case['topo']};{case['how']}")
    sample = None
    if chooser.rng is not None and chooser.rng.random() < 0.004:
        sample = {k: case.get(k) for k in ("topo", "gateways", "progs", "how", "streaming", "knobs", "strategy")}
        sample["procs"] = {n: (p["alive"], p["status"], p["exit_time"]) for n, p in res.procs.items()}
        sample["fault_log"] = [list(map(str, f)) for f in res.fault_log]
    feats = {(case["topo"], case["how"], tuple(sorted(case["progs"].values())), case["streaming"])}
    return gwsim.summarize(res, chooser, nontrivial=fired, feats=feats, sample=sample, violations=V)


def oracle(case, res, hist):
    V = []
    key0 = f"{case['topo']};{case['how']}"
    fault_t = None
    if res.fault_log:
        fault_t = res.fault_log[0][1]
    elif case["main_exits"] and not res.procs["init"]["alive"]:
        fault_t = res.procs["init"]["exit_time"]
    if fault_t is None or res.setup_error is not None:
        return V, False
    if res.reason == "time-cap":
        pass
    live = 0
    for name, p in sorted(res.procs.items()):
        if name == "init" or name == case["victim"]:
            continue
        if not p["info"].get("io_ready"):
            continue  # died/never finished inside the bootstrap stub: excluded
        if p["exit_time"] is not None and p["exit_time"] < fault_t:
            continue  # already gone
        live += 1
        hops = 1
        if case["topo"] == "via" and name != "w1" and case["victim"] == "init":
            hops = 2
        bound = 16.0 * hops
        gi = [g for g, pn, role in case["members"] if pn == name and role != "socket"]
        prog = case["progs"].get(str(gi[0])) if gi else "?"
        if p["alive"]:
            V.append(v("worker-outlived", f"{key0};prog={prog}",
                       f"{name} still alive {res.sched.now - fault_t:.1f} simulated s after the initiator was lost "
                       f"(run ended: {res.reason}; quiescent = every task of it is blocked for good)"))
        elif p["exit_time"] - fault_t > bound + 1e-9:
            V.append(v("worker-exit-late", f"{key0};prog={prog}",
                       f"{name} exited {p['exit_time'] - fault_t:.1f} s after the fault (bound {bound})"))
    return V, live > 0
