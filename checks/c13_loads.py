"""C13 - loading untrusted bytes is total, typed-error-only and side-effect free.

The simulated 'disk' of this check is a byte string written by execnet.dumps that is damaged by the fault kinds a
store or wire produces: early EOF / torn write at EVERY offset (exhaustive per dump), every single-byte substitution
(exhaustive for dumps <= 24 bytes, sampled above), deletions, insertions, duplicated / zeroed ranges, bit flips and
sequences of up to 3 such faults, read back through both loads(bytes) and load(stream).
There is no schedule here: the fault sequences are the input (see DESIGN.md 3/C13 for the caveat).
"""

from __future__ import annotations

import io
import sys

from vsim.world import load_execnet

from .chanlib import v

PROP = "C13"
LEVEL = "fault_enumeration"
BUDGET = {
    "quick": {"budget_s": 25, "chunk": 10, "shrink_s": 20, "chunk_wall": 400.0},
    "thorough": {"budget_s": 600, "chunk": 20, "shrink_s": 60, "chunk_wall": 600.0},
}
RULE = (
    "cases: one generated value of the supported grammar (None, bool, ints on both sides of 2**31, floats, complex, "
    "bytes, str, list, tuple, dict, set, frozenset, nested to depth 3) per run; its dump is damaged by ALL truncations, "
    "ALL single-byte substitutions (dumps <= 24 bytes; 600 sampled otherwise), 200 sampled deletions/insertions/range "
    "duplications/zeroings/bit flips and 200 sampled 2-3 fault combinations; each damaged string is loaded with loads() and "
    "load(BytesIO).  evaluations = runs (dumps); 'loads-evaluated' in rare_condition_probes counts loader calls.  "
    "Non-trivial = the dump is longer than 2 bytes; distinct = distinct dumps."
)
ASSUMPTIONS = [
    "no scheduler is involved: this is storage-fault enumeration on the reader seam (EOF at any offset, flipped stored bytes)",
    "runs under RLIMIT_AS = 320 MiB so that a corrupted length field produces MemoryError instead of exhausting the sandbox",
    "side effects are watched with sys.addaudithook (exec, compile, import, open, os.system, subprocess, socket events)",
]
COMPONENTS = {"real": ["gateway_base.Unserializer (load/loads)", "gateway_base._Serializer (dumps, to produce the valid dumps)"],
              "stub": ["the 'disk': a byte string damaged by the harness"]}

_state = {"in_load": False, "events": [], "hook": False}
BAD_EVENTS = ("exec", "compile", "import", "open", "os.system", "subprocess.Popen", "socket.connect", "os.exec",
              "os.spawn", "os.posix_spawn", "ctypes.dlopen", "os.remove", "os.rename", "shutil.rmtree")


def _audit(event, args):
    if _state["in_load"] and event in BAD_EVENTS:
        _state["events"].append(event)


def worker_init():
    import resource
    try:
        resource.setrlimit(resource.RLIMIT_AS, (320 << 20, 320 << 20))
    except (ValueError, OSError):
        pass
    if not _state["hook"]:
        sys.addaudithook(_audit)
        _state["hook"] = True


def gen_value(rng, depth=0):
    r = rng.random()
    if depth >= 3:
        r *= 0.6
    if r < 0.06:
        return None
    if r < 0.12:
        return rng.random() < 0.5
    if r < 0.28:
        return rng.choice([0, 1, -1, 255, 2**31 - 1, 2**31, 2**40, 10**25, -5, rng.randrange(-1000, 100000)])
    if r < 0.34:
        return rng.choice([0.0, 1.5, -2.25, 1e300, float("inf")])
    if r < 0.38:
        return complex(rng.choice([0.0, 1.0, -3.5]), rng.choice([0.0, 2.0]))
    if r < 0.50:
        return "".join(rng.choice("abé\n ") for _ in range(rng.randrange(0, 8)))
    if r < 0.60:
        return bytes(rng.randrange(256) for _ in range(rng.randrange(0, 8)))
    if r < 0.72:
        return [gen_value(rng, depth + 1) for _ in range(rng.randrange(0, 4))]
    if r < 0.82:
        return tuple(gen_value(rng, depth + 1) for _ in range(rng.randrange(0, 4)))
    if r < 0.92:
        return {rng.choice(["k", 1, (1, 2), "é", b"b"]): gen_value(rng, depth + 1) for _ in range(rng.randrange(0, 3))}
    if r < 0.96:
        return set(rng.sample(range(20), rng.randrange(0, 4)))
    # (several strings in one set would make the dump depend on the interpreter's hash seed)
    if rng.random() < 0.3:
        return frozenset([rng.choice(["a", "é", b"b"])])
    return frozenset(rng.sample([7, 3, 4.5, 11], rng.randrange(0, 3)))


def gen_big(rng):
    """a value with one large string payload, written as an expression (sizes around buffer-size thresholds)"""
    n = rng.choice([4096, 8192, 65536, 131072, 262144]) + rng.choice([-1, 0, 1, 1])
    unit = rng.choice(["b'\\x07'", "b'ab'", "'a'", "'\xe9'"])
    big = f"{unit}*{n}"
    shape = rng.choice(["bare", "bare", "list", "tuple", "dictval", "dictkey", "frozenset"])
    return {"bare": big, "list": f"[1, {big}, None]", "tuple": f"({big}, 2)", "dictval": f"{{'k': {big}}}",
            "dictkey": f"{{{big}: 1}}", "frozenset": f"frozenset([{big}])"}[shape]


def gen(rng, tier):
    if rng.random() < 0.12:
        return {"value_repr": gen_big(rng), "mseed": rng.randrange(1 << 30)}
    val = gen_value(rng)
    return {"value_repr": repr(val), "mseed": rng.randrange(1 << 30)}


def _r(d):
    r = repr(d)
    return r if len(r) < 400 else r[:160] + f" ...[{len(d)} bytes]... " + r[-120:]


SUPPORTED = (type(None), bool, int, float, complex, bytes, str, list, tuple, dict, set, frozenset)


def only_supported(val, budget):
    """-> True / False / None (None: more than `budget` nodes - a length field blew the structure up)"""
    stack = [val]
    n = 0
    while stack:
        x = stack.pop()
        n += 1
        if n > budget:
            return None
        t = type(x)
        if t not in SUPPORTED:
            return False
        if t in (list, tuple, set, frozenset):
            if len(x) > budget:
                return None
            stack.extend(x)
        elif t is dict:
            stack.extend(x.keys())
            stack.extend(x.values())
    return True


def site_of(exc):
    tb = exc.__traceback__
    name = "?"
    while tb is not None:
        fn = tb.tb_frame.f_code.co_filename
        if fn.endswith("gateway_base.py"):
            name = tb.tb_frame.f_code.co_name
        tb = tb.tb_next
    return name


def damage_set(rng, data, tier):
    n = len(data)
    out = [("valid", data)]  # the undamaged dump: its value, too, is built from the supported types only
    if n > 3000:
        # large payloads: a sample (the string is copied for every variant)
        cuts = {0, 1, 2, 5, 6, n - 1, n - 2, n // 2} | {rng.randrange(n) for _ in range(30)}
        for i in sorted(cuts):
            out.append(("trunc", data[:i]))
        for _ in range(40):
            i = rng.randrange(n) if rng.random() < 0.7 else rng.randrange(min(n, 12))
            out.append(("subst", data[:i] + bytes([rng.randrange(256)]) + data[i + 1:]))
        for _ in range(20):
            out.append(("single", _one_damage(rng, data)))
        return out
    for i in range(n):  # every strict prefix (torn write / early EOF)
        out.append(("trunc", data[:i]))
    if n <= 24:
        for i in range(n):
            for b in range(256):
                if b != data[i]:
                    out.append(("subst", data[:i] + bytes([b]) + data[i + 1:]))
    else:
        for _ in range(600):
            i = rng.randrange(n)
            out.append(("subst", data[:i] + bytes([rng.randrange(256)]) + data[i + 1:]))

    def one(d):
        return _one_damage(rng, d)

    for _ in range(200):
        out.append(("single", one(data)))
    for _ in range(200):
        d = data
        for _ in range(rng.randrange(2, 4)):
            d = one(d)
        out.append(("multi", d))
    return out


def _one_damage(rng, d):
    if True:
        k = rng.randrange(6)
        if not d:
            return bytes([rng.randrange(256)])
        i = rng.randrange(len(d))
        j = min(len(d), i + rng.randrange(1, 5))
        if k == 0:
            return d[:i] + d[j:]
        if k == 1:
            return d[:i] + bytes(rng.randrange(256) for _ in range(rng.randrange(1, 4))) + d[i:]
        if k == 2:
            return d[:j] + d[i:j] + d[j:]
        if k == 3:
            return d[:i] + b"\x00" * (j - i) + d[j:]
        if k == 4:
            return d[:i] + bytes([d[i] ^ (1 << rng.randrange(8))]) + d[i + 1:]
        return d[:i] + rng.choice([b"\x7f\xff\xff\xff", b"\xff\xff\xff\xff", b"\x80\x00\x00\x00", b"\x00\x00\x10\x00"]) + d[i + 4:]


def _has_length_bomb(d):
    i = d.find(b"K")
    while i >= 0:
        if i + 5 <= len(d) and int.from_bytes(d[i + 1:i + 5], "big", signed=True) >= (1 << 22):
            return True
        i = d.find(b"K", i + 1)
    return False


def execute(case, chooser):
    import random
    m = load_execnet()
    ex = m["execnet"]
    gb = m["gb"]
    worker_init()
    val = eval(case["value_repr"], {"inf": float("inf"), "nan": float("nan")})
    data = ex.dumps(val)
    rng = random.Random(case["mseed"])
    only = case.get("only")  # replay of one damaged string
    dmg = [("replay", bytes.fromhex(only))] if only else damage_set(rng, data, "quick")
    V = []
    seen = set()
    nloads = 0
    stats = {}
    bombs = 0
    # "loads terminates": an interval timer bounds every run (thousands of loads of a few microseconds each); a load
    # that is still running when it fires is reported with the very input it was given
    import signal

    class _LoadTimeout(BaseException):
        pass

    def _on_alarm(signum, frame):
        if _state.get("in_load"):
            raise _LoadTimeout()

    use_timer = hasattr(signal, "setitimer") and __import__("threading").current_thread() is __import__("threading").main_thread()
    old_handler = signal.signal(signal.SIGALRM, _on_alarm) if use_timer else None
    try:
        return _execute_loads(case, chooser, ex, gb, dmg, only, V, seen, stats, val, data, _LoadTimeout, use_timer, signal)
    finally:
        if use_timer:
            signal.setitimer(signal.ITIMER_REAL, 0)
            signal.signal(signal.SIGALRM, old_handler)


def _execute_loads(case, chooser, ex, gb, dmg, only, V, seen, stats, val, data, _LoadTimeout, use_timer, signal):
    nloads = 0
    bombs = 0
    LIMIT = 5.0  # seconds of wall clock per single load before it counts as not terminating
    hung = False
    for kind, d in dmg:
        if hung:
            break  # one non-terminating load per run is enough (each costs LIMIT seconds)
        # a damaged NEWLIST length makes the loader allocate up to hundreds of MB (the listed known finding
        # alloc-by-length-field); evaluate a bounded number of such strings per run, deterministically
        if not only and _has_length_bomb(d):
            bombs += 1
            if bombs > 8:
                stats["skipped-further-length-bombs"] = stats.get("skipped-further-length-bombs", 0) + 1
                continue
        for api in ("loads", "load"):
            nloads += 1
            _state["events"] = []
            if use_timer and (nloads % 16 == 1 or only or hung):
                signal.setitimer(signal.ITIMER_REAL, LIMIT)  # one-shot; re-armed every 16 loads and after it fired
            _state["in_load"] = True
            try:
                if api == "loads":
                    res = ex.loads(d)
                else:
                    res = ex.load(io.BytesIO(d))
                outcome = ("value", res)
            except _LoadTimeout:
                outcome = ("hang",)
                hung = True
            except (gb.DataFormatError, EOFError) as e:
                outcome = ("typed", type(e).__name__)
            except MemoryError as e:
                outcome = ("memory", site_of(e))
            except BaseException as e:  # noqa: BLE001
                outcome = ("other", type(e).__name__, site_of(e))
            finally:
                _state["in_load"] = False
            stats["fault:" + kind] = stats.get("fault:" + kind, 0) + 1
            viol = None
            if _state["events"]:
                viol = v("side-effect-during-load", _state["events"][0], f"{api}({_r(d)}) triggered {_state['events']}")
            elif outcome[0] == "hang":
                viol = v("load-did-not-terminate", api, f"{api}({_r(d)}) was still running after {LIMIT:.0f} s "
                                                        f"(damage kind {kind} of dumps({case['value_repr'][:200]}))")
            elif outcome[0] == "other":
                viol = v("load-wrong-exception", f"{outcome[1]};{outcome[2]}",
                         f"{api}({_r(d)}) raised {outcome[1]} in {outcome[2]} (damage kind {kind} of dumps({case['value_repr'][:200]}))")
            elif outcome[0] == "memory":
                # with a damaged NEWLIST length in the string the huge list is what exhausts memory, wherever the
                # MemoryError happens to surface afterwards (a large string payload read next, under memory pressure)
                site = "load_newlist" if _has_length_bomb(d) else outcome[1]
                viol = v("alloc-by-length-field", site, f"{api}({_r(d)}) raised MemoryError in {outcome[1]}")
            elif outcome[0] == "value":
                sup = only_supported(outcome[1], 16 * len(d) + 1000)
                if sup is None:
                    # a length field made the loader allocate far more than the input could justify
                    viol = v("alloc-by-length-field", "load_newlist",
                             f"{api}({_r(d)}) built a structure of more than {16 * len(d) + 1000} nodes from {len(d)} bytes")
                elif kind == "trunc":
                    viol = v("prefix-loaded", api, f"strict prefix {_r(d)} of dumps({case['value_repr'][:200]}) loaded as {outcome[1]!r}")
                elif sup is False:
                    viol = v("unsupported-type-in-result", api, f"{api}({_r(d)}) -> {str(outcome[1])[:200]}")
                outcome = None
            if viol is not None:
                cls = (viol["rule"], viol["key"])
                if cls not in seen:
                    seen.add(cls)
                    viol["damaged_hex"] = d.hex()
                    V.append(viol)
    stats["loads-evaluated"] = nloads
    _state["last_hex"] = {(x["rule"], x["key"]): x["damaged_hex"] for x in V}
    sample = None
    if chooser.rng is not None and chooser.rng.random() < 0.02:
        sample = {"value": case["value_repr"][:300], "dump_hex": data[:200].hex(), "dump_len": len(data), "damaged_strings": len(dmg),
                  "examples": [d[:200].hex() for _, d in dmg[:3]]}
    return {"violations": V, "digest": data.hex()[:64] + f"-{len(data)}", "sim_time": 0.0, "steps": 0, "switches": 0,
            "stats": stats, "nontrivial": len(data) > 2, "features": {type(val).__name__}, "sample": sample}


def shrink_cases(case):
    # the replay file names the one damaged string that fails (filled in by the preceding execute())
    if case.get("only"):
        return
    for hx in list(_state.get("last_hex", {}).values()):
        yield dict(case, only=hx)


def case_from_json(c):
    return c
