"""C14 - main_thread_only executes in the main thread and never cries deadlock falsely.

Histories of 1-5 remote_execs on a main_thread_only worker with outcomes return / raise (BodyError, EOFError, other
builtin exceptions incl. GeneratorExit) / receive() ended by the initiator's close / SystemExit /
KeyboardInterrupt (SIGINT fault while the body runs) / blocked-until-released, submitted sequentially (next one
only after the previous channel was seen closed) or overlapping (while the earlier body is still blocked).
"""

from __future__ import annotations

from vsim import gwsim

from . import chanlib as L
from .chanlib import v

PROP = "C14"
LEVEL = "exploration"
BUDGET = {
    "quick": {"budget_s": 40, "chunk": 80, "shrink_s": 40},
    "thorough": {"budget_s": 900, "chunk": 200, "shrink_s": 120},
}
RULE = (
    "cases: histories of 1-5 remote_exec bodies (return, raise incl. EOFError/GeneratorExit/OSError, receive() ended by the initiator closing the channel, SystemExit, interrupted by SIGINT, blocked until "
    "released) on a main_thread_only worker reached over popen / bare / proxied gateways, each next submission either "
    "sequential (after the previous channel was observed closed) or overlapping a blocked body; schedules uniform/sticky/"
    "PCT with 0-3 line preemptions, small pipes.  Non-trivial = at least two submissions under a schedule with real "
    "choices; distinct = distinct event-log digests."
)
ASSUMPTIONS = [
    "no stall longer than the 1 s grace period is injected (the property quantifies over interleavings, not delays)",
    "SIGINT is delivered as KeyboardInterrupt at the worker main task's next sync point",
    "the socket transport is excluded: there the gateway is served from a non-main thread of the hosting worker by design",
]
COMPONENTS = {
    "real": ["WorkerGateway.serve/_local_schedulexec/executetask", "WorkerPool (primary-thread mailbox)", "Gateway", "Group"],
    "stub": ["kernel pipes/processes/signals (vsim)"],
}

DEADLOCK = "concurrent remote_exec would cause deadlock for main_thread_only"


def gen(rng, tier):
    transport = rng.choices(["popen", "bare", "proxy"], [70, 12, 18])[0]
    specs, gwi = L.gateways_for(transport, "main_thread_only")
    knobs = L.gen_knobs(rng, small_ok=transport == "popen")
    if transport != "popen" and knobs["pipe_cap"] < 4096:
        knobs["pipe_cap"] = 4096
    actors = [{"side": "i", "gw": gwi, "chan": None, "ops": []}]
    expect = {0: []}
    faults = []
    bodies = []  # (aid, kind)

    def add(aid, op, exp="any"):
        actors[aid]["ops"].append(op)
        expect.setdefault(aid, []).append(exp)

    def new_actor(side, chan):
        actors.append({"side": side, "gw": gwi, "chan": chan, "ops": []})
        expect[len(actors) - 1] = []
        return len(actors) - 1

    n = rng.choice([1, 2, 2, 3, 3, 4, 5])
    worker_name = "w2" if transport == "proxy" else "w1"
    for i in range(n):
        kind = rng.choice(["ret", "ret", "raise", "raise", "sysexit", "int", "block", "raise_eof", "recv_closed",
                           "raise_other", "ret_cb", "ret_cb"])
        label = f"b{i}"
        B = new_actor("w", label)
        bodies.append((B, kind, True))
        add(B, ["ident"], "mainthread")
        add(B, ["send", label, f"{label}:w2i:{B}:0", L.gen_fill(rng)], "ok")
        add(0, ["exec", label, B, gwi], "chan")
        add(0, ["recv", label], f"tok:{label}:w2i:{B}:0")
        if kind == "ret":
            if rng.random() < 0.5:
                add(B, ["yield", rng.randrange(1, 4)], "ok")
            add(0, ["waitclose", label, 600], "ok")
        elif kind == "ret_cb":
            # the body leaves a callback (with endmarker) on its own channel: the automatic close at its end runs
            # the endmarker callback in the main thread, just before the main thread is released
            add(B, ["setcb", label, True, None], "ok")
            add(0, ["waitclose", label, 600], "ok")
        elif kind == "raise":
            add(B, ["raise", "body boom"], "raised")
            add(0, ["waitclose", label, 600], "remote:BodyError")
        elif kind == "raise_eof":
            # an EOFError leaving the body (the usual end of a receive loop) is not reported as an error
            add(B, ["propagate", ["raise_named", "EOFError"]], "eof")
            add(0, ["waitclose", label, 600], "ok")
        elif kind == "recv_closed":
            # the body is (or will be) blocked in receive() when the initiator closes the channel: EOFError ends it
            add(B, ["propagate", ["recv", label]], "eof")
            if rng.random() < 0.5:
                add(0, ["yield", rng.randrange(1, 6)], "ok")
            add(0, ["close", label], "ok")
        elif kind == "raise_other":
            exc = rng.choice(["OSError", "GeneratorExit", "StopIteration", "MemoryError", "AssertionError"])
            add(B, ["propagate", ["raise_named", exc]], "any")
            add(0, ["waitclose", label, 600], f"remotetext:{exc}")
        elif kind == "sysexit":
            add(B, ["raise_sys", 3], "any")
            add(0, ["waitclose", label, 600], "remotetext:SystemExit")
        elif kind == "int":
            add(B, ["sleep", 50.0], "any")
            faults.append({"at": ["op", B, len(actors[B]["ops"]) - 1, "inv"], "do": ["int", worker_name]})
            add(0, ["waitclose", label, 600], "remotetext:keyboard-interrupted")
        else:  # block, possibly with overlapping submissions
            latch = f"rel{i}"
            add(B, ["latch_wait", latch, 900], "true")
            add(B, ["send", label, f"{label}:w2i:{B}:1", L.gen_fill(rng)], "ok")
            for x in range(rng.choice([0, 1, 1, 2])):
                xl = f"x{i}_{x}"
                X = new_actor("w", xl)
                bodies.append((X, "refused", False))
                add(X, ["ident"], "any")
                add(X, ["send", xl, f"{xl}:w2i:{X}:0", ["none"]], "any")
                add(0, ["exec", xl, X, gwi], "chan")
                add(0, ["waitclose", xl, 600], f"remotetext:{DEADLOCK}")
                add(0, ["recv", xl], "eof")
            add(0, ["latch_set", latch], "ok")
            add(0, ["recv", label], f"tok:{label}:w2i:{B}:1")
            add(0, ["waitclose", label, 600], "ok")
        if rng.random() < 0.3:
            add(0, ["isclosed", label], "true")
    add(0, ["hasreceiver"], "true")
    add(0, ["terminate", 10.0], "any")
    return {"gateways": specs, "actors": actors, "expect": {str(k): val for k, val in expect.items()},
            "knobs": knobs, "strategy": L.gen_strategy(rng), "preempt": L.gen_preempt(rng, 3000), "preempt_at": L.gen_preempt_at(rng, ["_local_schedulexec", "executetask", "_executetask_finished", "_try_send_to_primary_thread", "integrate_as_primary_thread", "spawn", "_perform_spawn", "run", "close", "_no_longer_opened"]), "faults": faults,
            "transport": transport, "gwi": gwi, "bodies": bodies, "errtext_limit": 3000}


def shrink_cases(case):
    if case.get("preempt_at"):
        for i in range(len(case["preempt_at"])):
            c = dict(case)
            c["preempt_at"] = case["preempt_at"][:i] + case["preempt_at"][i + 1:]
            yield c
    if case.get("preempt"):
        for i in range(len(case["preempt"])):
            c = dict(case)
            c["preempt"] = case["preempt"][:i] + case["preempt"][i + 1:]
            yield c
    k = case["knobs"]
    if k.get("chunk") != "greedy" or k.get("pipe_cap") != 65536:
        c = dict(case)
        c["knobs"] = dict(k, chunk="greedy", pipe_cap=65536)
        yield c


def execute(case, chooser):
    res = gwsim.run_case(case, chooser, max_steps=150_000)
    gwsim.check_harness(res)
    hist = L.Hist(res)
    V = oracle(case, res, hist)
    kinds = tuple(k for _, k, _ in case["bodies"])
    sample = None
    if chooser.rng is not None and chooser.rng.random() < 0.004:
        sample = {"transport": case["transport"], "bodies": kinds, "knobs": case["knobs"],
                  "strategy": case["strategy"], "preempt": case["preempt"],
                  "main_ops": [o[:3] for o in case["actors"][0]["ops"]]}
    return gwsim.summarize(res, chooser, nontrivial=len(kinds) >= 2 and len(chooser.trace) > 0,
                           feats={(case["transport"], kinds)}, sample=sample, violations=V)


def oracle(case, res, hist):
    V = L.generic_rules(res, hist, allow_exc={("*", "RemoteError"), ("*", "EOFError"), ("sleep", "KeyboardInterrupt"),
                                               ("raise_sys", "SystemExit")}
                        | {("propagate", x) for x in ("OSError", "GeneratorExit", "StopIteration", "MemoryError",
                                                      "AssertionError")}, key="mto")
    # false deadlock gets its own rule name
    for e in L.check_expectations(case, hist, "mto"):
        if DEADLOCK in e["detail"] and "expected remotetext:" + DEADLOCK not in e["detail"]:
            e = v("false-deadlock", e["key"], e["detail"])
        V.append(e)
    # bodies: main thread, one at a time, submission order
    spans = []
    for aid, kind, should_run in case["bodies"]:
        first = hist.inv.get((aid, 0))
        if first is None:
            continue
        if not should_run:
            V.append(v("overlap-not-refused", "mto", f"body {aid} ran although an earlier body was still running"))
        r = hist.ret.get((aid, 0))
        if r is not None and r[1][0] == "ident" and r[1][2] is not True:
            V.append(v("not-main-thread", "mto", f"body {aid} ran in task {r[1][1]} which is not the worker's main task"))
        spans.append((first[0], hist.done.get(aid), aid))
    spans.sort()
    for (s1, e1, a1), (s2, e2, a2) in zip(spans, spans[1:]):
        if e1 is None or e1 > s2:
            V.append(v("bodies-overlap", "mto", f"body {a2} started at {s2} before body {a1} ended ({e1})"))
    # submission order == start order
    sub = {}
    for aid, oi, op, s1, s2, r in hist.ops(("exec",)):
        sub[op[2]] = s1
    started = [a for _, _, a in spans]
    if started != sorted(started, key=lambda a: sub.get(a, 0)):
        V.append(v("bodies-out-of-order", "mto", f"start order {started}"))
    return V
