"""C15 - bootstrapping needs nothing installed on the other side (emulated, with limits).

The same generated two-party channel program as in C16 is run on an import-bootstrapped popen worker (reference)
and on workers that come up from transmitted source alone on hosts where `import execnet` fails and only the
standard library is importable: explicit python= over a pipe, ssh (with and without ssh_config / python=), a
proxied sub started by such a bare master, and a socket server running on a bare worker.  The shipped bytes are
really executed (statement by statement, in a fresh __main__ module); every import inside them goes through an
import guard.  Transcripts must equal the reference; the command lines built for the children are checked.
"""

from __future__ import annotations

import os

import sys

from . import c16_transports as c16
from . import chanlib as L
from .chanlib import v

PROP = "C15"
LEVEL = "exploration"
BUDGET = {
    "quick": {"budget_s": 45, "chunk": 30, "shrink_s": 40},
    "thorough": {"budget_s": 900, "chunk": 40, "shrink_s": 120, "chunk_wall": 600.0},
}
RULE = (
    "cases: C16's generated deterministic channel scripts x remote backend {thread, main_thread_only, gevent-name} run on "
    "popen (import bootstrap, reference), popen//python= (bare), ssh= (bare), ssh with ssh_config and python=, "
    "popen//via= through a bare master, socket//installvia= on a bare master, vagrant_ssh= (plain and with ssh_config + python=); one run in seven with EXECNET_DEBUG=1 in the workers' environment; oracle: identical transcripts, scripted "
    "outcomes, bootstrap kind of every child as expected, argv shape of every child.  Non-trivial = at least 3 steps on "
    "all six paths; distinct = distinct event-log digests of the bundle."
)
ASSUMPTIONS = [
    "a 'bare interpreter' is emulated inside the same CPython 3.12: a fresh __main__ namespace whose __import__ refuses "
    "execnet and everything outside sys.stdlib_module_names; real interpreters, -S -E, ssh itself are NOT run",
    "only executed paths are judged: a reference to another execnet module on a path no generated program reaches is not seen",
    "gevent/eventlet back ends are exercised by name only (they select the no-primary-thread code path) on simulated primitives",
]
COMPONENTS = {
    "real": ["gateway_bootstrap.bootstrap / bootstrap_import / bootstrap_exec / bootstrap_socket / sendexec",
             "the shipped source of gateway_base (+ SocketIO, gateway_io, socketserver when shipped) executing in a bare namespace",
             "gateway_io.popen_args / ssh_args / popen_bootstrapline / Popen2IOMaster", "gateway_io's dual import fallback"],
    "stub": ["the interpreter start-up itself (the -c program is executed by the stub with a stand-in sys)",
             "init_popen_io / get_execmodel (substituted after the shipped source has defined them)"],
}

PATHS = ["popen", "bare", "ssh", "ssh-config", "proxy-bare", "socket-bare", "vagrant", "vagrant-config",
         "proxy-bare-mto", "socket-bare-mto"]
BOOTLINE = "import sys;exec(eval(sys.stdin.readline()))"


def gen(rng, tier):
    while True:
        case = c16.gen(rng, tier)
        if case["mode"] == "equiv":
            # one run in seven has EXECNET_DEBUG=1 in the environment the workers see: the shipped source then takes
            # its file-tracing branch at load time and on every trace() call (the import-bootstrapped reference
            # does not: its module was imported long before)
            case["debug_env"] = rng.random() < 0.15
            case["scratch"] = "vsim-c15-%08x" % rng.randrange(1 << 32)
            return case


def shrink_cases(case):
    return c16.shrink_cases(case)


def inspect(t, sub, res, hist):
    V = []
    for name, p in sorted(res.procs.items()):
        if name == "init":
            continue
        info = p["info"]
        kind = info.get("boot_kind")
        want = "import" if t == "popen" else ("ssh" if t.startswith(("ssh", "vagrant")) else "bare")
        if kind != want:
            V.append(v("unexpected-bootstrap-kind", f"{t};{kind}", f"{name}: boot kind {kind}, expected {want}"))
        if info.get("boot_error"):
            V.append(v("bootstrap-failed", t, f"{name}: {info['boot_error']}"))
    # command lines
    w = res.world
    for pr in w.procs:
        if pr.argv is None:
            continue
        a = [str(x) for x in pr.argv]
        ok = True
        if a[0] == "ssh":
            ok = a[1] == "-C" and a[-1].endswith(f' -c "{BOOTLINE}"')
            if t == "ssh-config":
                ok = ok and a[2:4] == ["-F", "/sim/ssh_config"] and a[4:7] == ["-p", "2222", "user@simhost"] \
                    and a[-1].startswith("/opt/py/bin/python3 -c ")
            else:
                ok = ok and a[2] == "simhost" and a[-1].startswith("python -c ")
        elif a[0] == "vagrant":
            ok = a[1] == "ssh" and a[3:5] == ["--", "-C"] and a[-1].endswith(f' -c "{BOOTLINE}"')
            if t == "vagrant-config":
                ok = ok and a[2] == "box1" and a[5:7] == ["-F", "/sim/ssh_config"] and len(a) == 8 \
                    and a[-1].startswith("/opt/py/bin/python3 -c ")
            else:
                ok = ok and a[2] == "default" and len(a) == 6 and a[-1].startswith("python -c ")
        else:
            ok = a[-2:] == ["-c", BOOTLINE] and "-u" in a
            if t in ("bare", "proxy-bare", "socket-bare", "proxy-bare-mto", "socket-bare-mto") and pr.name == "w1":
                ok = ok and a[:3] == ["/sim/bare-python3", "-S", "-E"]
            elif a[0] != "/sim/bare-python3":
                ok = ok and a[0] == sys.executable
        if not ok:
            V.append(v("child-argv-shape", t, f"{pr.name}: {a}"))
    return V


def execute(case, chooser):
    if case.get("debug_env"):
        import shutil
        import tempfile
        d = os.path.join("/dev/shm", case["scratch"] + "-" + os.environ.get("VERIF_RUN_TAG", "00000000"))
        shutil.rmtree(d, ignore_errors=True)
        os.makedirs(d)
        old_env, old_tmp = os.environ.get("EXECNET_DEBUG"), tempfile.tempdir
        os.environ["EXECNET_DEBUG"] = "1"
        tempfile.tempdir = d
        try:
            out = c16.run_equiv(case, chooser, PATHS, inspect=inspect)
        finally:
            if old_env is None:
                os.environ.pop("EXECNET_DEBUG", None)
            else:
                os.environ["EXECNET_DEBUG"] = old_env
            tempfile.tempdir = old_tmp
            shutil.rmtree(d, ignore_errors=True)
    else:
        out = c16.run_equiv(case, chooser, PATHS, inspect=inspect)
    # a denied import that the shipped code does not handle shows up as a failed run (setup-failed /
    # RemoteError / transcript difference); name it explicitly when the text says so
    for x in out["violations"]:
        if "No module named" in x["detail"] and "bare interpreter" in x["detail"]:
            x["rule"] = "bare-import"
    out["features"] = {("c15",) + tuple(f) for f in out["features"]}
    return out
