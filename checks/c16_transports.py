"""C16 - every transport is observationally equivalent for channel programs.

A generated *schedule-independent* channel program (one actor per side; items of all sizes and types in both
directions, sub-channels created on either side, callbacks, a remote error, closes, makefile reads) is run on
popen, popen//python= (bare), socket//installvia and popen//via with the same remote backend, each under its own
seeded schedule; the observable transcripts must be identical to each other and to the outcomes the generator
scripts from the property (reference model).  Second family: control operations of the proxied IO
(wait / kill / close_write must reach the proxied process).
"""

from __future__ import annotations

from vsim import gwsim
from vsim.kernel import HarnessError

from . import chanlib as L
from .chanlib import v

PROP = "C16"
LEVEL = "exploration"
BUDGET = {
    "quick": {"budget_s": 45, "chunk": 30, "shrink_s": 40},
    "thorough": {"budget_s": 900, "chunk": 40, "shrink_s": 120, "chunk_wall": 600.0},
}
RULE = (
    "cases: a deterministic two-party script of 2-14 steps (item i->w / w->i with fillers up to 200 KB, sub-channel "
    "created by either side and passed bare or nested, callback delivery of a burst, explicit close of a sub-channel by "
    "either side, makefile('r') reads of a burst, two initiator threads writing 70-200 KB frames on different channels, final outcome return / raise / gateway.exit() while the body still has items to deliver) x remote backend {thread, main_thread_only, "
    "gevent} run on the 4 transports x schedules (uniform/sticky/PCT, pipe/socket capacities, read chunking); and "
    "control cases on a proxied gateway (kill, close_write, wait, wait for a sub that exits by itself).  Non-trivial = at least 3 steps on all four "
    "transports; distinct = distinct event-log digests of the 4-run bundle."
)
ASSUMPTIONS = [
    "programs are schedule-independent by construction (one actor per side, strict turn taking), so any transcript "
    "difference is caused by the transport",
    "RemoteError texts are compared by their last line (tracebacks name different files on bare workers)",
]
COMPONENTS = {
    "real": ["gateway_io.ProxyIO / serve_proxy_io / Popen2IOMaster / create_io", "gateway_socket.SocketIO / create_io / "
             "start_via", "script/socketserver.py", "gateway_bootstrap.bootstrap_*", "ChannelFileRead (proxy stream "
             "re-assembly)", "the whole channel stack"],
    "stub": ["kernel pipes/sockets/processes (vsim)", "bootstrap tail (init_popen_io/get_execmodel)"],
}

TRANSPORTS = ["popen", "bare", "socket", "proxy"]


def gen(rng, tier):
    if rng.random() < 0.15:
        return gen_control(rng, tier)
    backend = rng.choice(["thread", "thread", "main_thread_only", "gevent"])
    I = []  # initiator ops
    W = []  # worker ops
    EI, EW = [], []

    def ai(op, exp="any"):
        I.append(op)
        EI.append(exp)

    def aw(op, exp="any"):
        W.append(op)
        EW.append(exp)

    chans = ["c0"]
    H = []  # helper actors on the initiator: [ops, expectations]
    closed = set()
    nsteps = rng.randrange(2, 15)
    big = rng.random() < 0.3
    k = 0
    nsub = 0
    for _ in range(nsteps):
        live = [c for c in chans if c not in closed]
        if not live:
            break
        c = rng.choice(live)
        r = rng.random()
        k += 1
        if r < 0.3:
            tok = f"{c}:i2w:0:{k}"
            ai(["send", c, tok, L.gen_fill(rng, big)], "ok")
            aw(["recv", c], f"tok:{tok}")
        elif r < 0.6:
            tok = f"{c}:w2i:1:{k}"
            aw(["send", c, tok, L.gen_fill(rng, big)], "ok")
            ai(["recv", c], f"tok:{tok}")
        elif r < 0.72 and nsub < 3:
            nsub += 1
            s = f"s{nsub}"
            nest = rng.choice(["bare", "list", "tuple", "dict"])
            if rng.random() < 0.5:
                ai(["newchan", s], "chan")
                ai(["sendchan", c, s, f"{c}:i2w:0:chan{k}", nest], "chan")
                aw(["recvchan", c, s], "chan")
            else:
                aw(["newchan", s], "chan")
                aw(["sendchan", c, s, f"{c}:w2i:1:chan{k}", nest], "chan")
                ai(["recvchan", c, s], "chan")
            chans.append(s)
        elif r < 0.80 and c != "c0":
            # burst delivered through a callback on the initiator, then the sub-channel is closed by the worker
            n = rng.randrange(0, 5)
            ai(["setcb", c, True, None, None, None, f"end-{c}"], "ok")
            ai(["send", "c0", f"c0:i2w:0:go{k}", ["none"]], "ok")
            aw(["recv", "c0"], f"tok:c0:i2w:0:go{k}")
            for j in range(n):
                aw(["send", c, f"{c}:w2i:1:{k}_{j}", L.gen_fill(rng, False)], "ok")
            aw(["close", c], "ok")
            ai(["latch_wait", f"end-{c}", 600], "true")
            ai(["waitclose", c, 600], "ok")
            closed.add(c)
        elif r < 0.88 and c != "c0":
            # burst of text items read back through makefile('r')
            n = rng.randrange(0, 4)
            texts = ["".join(rng.choice("ab\nx") for _ in range(rng.randrange(0, 9))) for _ in range(n)]
            for t in texts:
                aw(["send_raw", c, t], "ok")
            aw(["close", c], "ok")
            calls = [rng.choice([["read", rng.choice([1, 3, 50])], ["readline"]]) for _ in range(rng.randrange(1, 5))]
            ai(["mkfile_r", c, calls], "ok")
            closed.add(c)
        elif r < 0.905 and c != "c0":
            # two initiator threads write large frames at the same time, on different channels: per-channel results
            # do not depend on the schedule, but the frames of both share one connection (and one forwarder)
            f1 = rng.choice([["bytes", 200000], ["str", 70000, "a"], ["bytes", 70000]])
            f2 = rng.choice([["bytes", 200000], ["str", 70000, "u"], ["bytes", 9000], ["int", 7]])
            hops = [["send", c, f"{c}:i2w:h{len(H)}:{k}", f1], ["send", c, f"{c}:i2w:h{len(H)}:{k}b", ["none"]]]
            H.append([hops, ["ok", "ok"]])
            ai(["spawn", 1 + len(H)], "ok")
            ai(["send", "c0", f"c0:i2w:0:{k}", f2], "ok")
            ai(["send", "c0", f"c0:i2w:0:{k}b", f1], "ok")
            ai(["join", 1 + len(H), 600], "any")
            aw(["recv", "c0"], f"tok:c0:i2w:0:{k}")
            aw(["recv", c], f"tok:{c}:i2w:h{len(H) - 1}:{k}")
            aw(["recv", "c0"], f"tok:c0:i2w:0:{k}b")
            aw(["recv", c], f"tok:{c}:i2w:h{len(H) - 1}:{k}b")
        elif r < 0.94 and c != "c0":
            who = rng.choice(["i", "w"])
            if who == "i":
                ai(["close", c], "ok")
                aw(["recv", c], "eof")
            else:
                aw(["close", c], "ok")
                ai(["recv", c], "eof")
            closed.add(c)
        else:
            # a round trip that proves both ends still consider the channel open
            tok = f"{c}:i2w:0:{k}p"
            ai(["send", c, tok, ["none"]], "ok")
            aw(["recv", c], f"tok:{tok}")
            aw(["isclosed", c], "false")
            aw(["send", c, f"{c}:w2i:1:{k}q", ["none"]], "ok")
            ai(["recv", c], f"tok:{c}:w2i:1:{k}q")
    final = rng.choice(["return", "return", "raise", "exit_then_drain"])
    if final == "exit_then_drain":
        # the initiator exits the gateway while the body still has something to deliver: the worker gets its few
        # seconds of grace on every transport, so the late items and the close arrive all the same
        aw(["send", "c0", f"c0:w2i:1:{k}first", ["none"]], "ok")
        aw(["sleep", 1.0], "ok")
        aw(["send", "c0", f"c0:w2i:1:{k}late", L.gen_fill(rng, False)], "ok")
        aw(["send", "c0", f"c0:w2i:1:{k}big", ["bytes", 70000]], "ok")
        ai(["recv", "c0"], f"tok:c0:w2i:1:{k}first")
        ai(["gwexit", 0], "ok")
        ai(["recv", "c0"], f"tok:c0:w2i:1:{k}late")
        ai(["recv", "c0"], f"tok:c0:w2i:1:{k}big")
        ai(["recv", "c0"], "eof")
        ai(["waitclose", "c0", 600], "any")
        return {"mode": "equiv", "backend": backend, "I": I, "W": W, "EI": EI, "EW": EW, "H": H,
                "knob_seed": rng.randrange(1 << 30), "nsteps": len(I) + len(W), "errtext_limit": 4000}
    if final == "raise":
        aw(["raise", "body boom"], "raised")
        ai(["waitclose", "c0", 600], "remote:BodyError")
    else:
        ai(["waitclose", "c0", 600], "ok")
    ai(["recv", "c0"], "eof")
    # every message type once more on the finished conversation: STATUS, a fresh CHANNEL_EXEC, RECONFIGURE
    ai(["status"], "status")
    ai(["exec_src", "p", "channel.send('alive')", 0], "chan")
    if rng.random() < 0.5:
        ai(["reconfigure", "p", True, False], "ok")
    ai(["recv", "p"], "alive")
    ai(["waitclose", "p", 600], "ok")
    return {"mode": "equiv", "backend": backend, "I": I, "W": W, "EI": EI, "EW": EW, "H": H,
            "knob_seed": rng.randrange(1 << 30), "nsteps": len(I) + len(W), "errtext_limit": 4000}


def gen_control(rng, tier):
    op = rng.choice(["kill", "close_write", "wait-after-exit", "wait-for-self-exit", "wait-for-self-exit",
                     "terminate-stopped-sub", "terminate-stopped-sub"])
    prog = rng.choice(["sleep", "recv", "idle"])
    if op == "wait-for-self-exit":
        prog = "selfexit"
    return {"mode": "control", "ctl": op, "prog": prog, "backend": rng.choice(["thread", "main_thread_only", "gevent"]),
            "master_bare": rng.random() < 0.3, "knob_seed": rng.randrange(1 << 30), "nsteps": 3}


def shrink_cases(case):
    if case["mode"] != "equiv":
        return
    I, W = case["I"], case["W"]
    # (scripts are tightly coupled; only calm the knobs via a fixed seed)
    if case["knob_seed"] != 0:
        c = dict(case)
        c["knob_seed"] = 0
        yield c


def build(case, transport, rng):
    specs, gwi = L.gateways_for(transport, case["backend"])
    if rng is None:
        knobs = {"pipe_cap": 65536, "sock_cap": 65536, "chunk": "greedy"}
        strategy = {"kind": "default"}
    else:
        knobs = L.gen_knobs(rng, small_ok=False)
        strategy = L.gen_strategy(rng)
    I = [list(o) for o in case["I"]]
    for o in I:
        if o[0] in ("exec", "exec_src"):
            o[3] = gwi
        if o[0] == "gwexit":
            o[1] = gwi
    actors = [{"side": "i", "gw": gwi, "chan": None, "ops": [["exec", "c0", 1, gwi]] + I + [["terminate", 10.0]]},
              {"side": "w", "gw": gwi, "chan": "c0", "ops": [list(o) for o in case["W"]]}]
    expect = {"0": ["chan"] + list(case["EI"]) + ["any"], "1": list(case["EW"])}
    for hops, hexp in case.get("H", ()):
        actors.append({"side": "i", "gw": gwi, "chan": "c0", "ops": [list(o) for o in hops]})
        expect[str(len(actors) - 1)] = list(hexp)
    return {"gateways": specs, "actors": actors, "expect": expect, "knobs": knobs, "strategy": strategy,
            "preempt": [], "preempt_at": [], "faults": [], "transport": transport, "gwi": gwi,
            "backend": case["backend"], "errtext_limit": case.get("errtext_limit", 4000)}


def transcript(case, res, hist):
    out = []
    for aid in range(len(case["actors"])):
        ops = case["actors"][aid]["ops"]
        for oi, op in enumerate(ops):
            if op[0] in ("terminate",):
                continue
            r = hist.ret.get((aid, oi))
            rr = r[1] if r else ("<no result>",)
            if rr and rr[0] == "status":
                # the counters are timing dependent, the execmodel is not - except on socket workers, which run
                # the socket server's model whatever the spec says ("XXX: switch to spec" in bootstrap_socket)
                rr = ("status", case.get("backend") if case.get("transport", "").startswith("socket") else rr[3])
            if rr and rr[0] == "exc" and rr[1] == "EOFError":
                rr = ("exc", "EOFError")  # the text names the IO class' way of noticing the end of the stream
            if rr and rr[0] == "exc" and rr[1] == "RemoteError":
                rr = ("exc", "RemoteError", rr[2].strip().splitlines()[-1] if rr[2].strip() else "")
            ent = [aid, oi, op[0], rr]
            subs = [d for s_, d in hist.sub.get((aid, oi), ())]
            cbs = [d for s_, d in hist.cb.get((aid, oi), ())]
            if subs:
                ent.append(("sub", subs))
            if cbs:
                ent.append(("cb", cbs))
            out.append(ent)
    return out


def execute(case, chooser):
    import random
    if case["mode"] == "control":
        return execute_control(case, chooser)
    return run_equiv(case, chooser, TRANSPORTS)


def run_equiv(case, chooser, transports, inspect=None):
    import random
    V = []
    transcripts = {}
    digest = []
    total = {"sim_time": 0.0, "steps": 0, "switches": 0}
    stats = {}
    krng = random.Random(case["knob_seed"]) if case["knob_seed"] else None
    for t in transports:
        sub = build(case, t, krng)
        res = gwsim.run_case(sub, chooser, max_steps=400_000)
        gwsim.check_harness(res)
        hist = L.Hist(res)
        for x in L.generic_rules(res, hist, allow_exc={("*", "RemoteError"), ("*", "EOFError")}, key=t):
            V.append(x)
        for x in L.check_expectations(sub, hist, t):
            x = dict(x)
            x["rule"] = "reference-model-mismatch"
            V.append(x)
        transcripts[t] = transcript(sub, res, hist)
        if inspect is not None:
            V += inspect(t, sub, res, hist)
        digest.append(res.sched.digest())
        total["sim_time"] += res.sched.now
        total["steps"] += res.sched.step
        total["switches"] += res.sched.switches
        for k_, n in res.sched.stats.items():
            stats[k_] = stats.get(k_, 0) + n
        del res, hist
    ref = transcripts[transports[0]]
    for t in transports[1:]:
        if transcripts[t] != ref:
            diff = None
            for a, b in zip(ref, transcripts[t]):
                if a != b:
                    diff = (a, b)
                    break
            V.append(v("transcript-differs", f"{t};{diff[0][2] if diff else 'length'}",
                       f"popen: {str(diff[0])[:250] if diff else len(ref)} | {t}: {str(diff[1])[:250] if diff else len(transcripts[t])}"))
    sample = None
    if chooser.rng is not None and chooser.rng.random() < 0.01:
        sample = {"backend": case["backend"], "I": [o[:3] for o in case["I"]], "W": [o[:3] for o in case["W"]],
                  "transcript_popen": [str(e)[:120] for e in ref][:20]}
    return {"violations": V, "digest": "|".join(digest), "sim_time": total["sim_time"], "steps": total["steps"],
            "switches": total["switches"], "stats": stats, "nontrivial": case["nsteps"] >= 3 and len(chooser.trace) > 0,
            "features": {(case["backend"], min(case["nsteps"], 12))}, "sample": sample}


def execute_control(case, chooser):
    """wait/kill/close_write issued on the master's ProxyIO must reach the proxied process."""
    import random
    rng = random.Random(case["knob_seed"])
    master = "popen//python=/sim/bare-python3//id=m" if case["master_bare"] else "popen//id=m"
    specs = [master, f"popen//via=m//id=g//execmodel={case['backend']}"]
    main = []
    actors = [{"side": "i", "gw": 1, "chan": None, "ops": main}]
    if case["prog"] == "selfexit":
        actors.append({"side": "w", "gw": 1, "chan": "c0",
                       "ops": [["send", "c0", "c0:w2i:1:started", ["none"]], ["sleep", rng.choice([0.5, 1.5, 20.0])],
                               ["os_exit", 5]]})
        main += [["exec", "c0", 1, 1], ["recv", "c0"]]
    elif case["prog"] != "idle":
        actors.append({"side": "w", "gw": 1, "chan": "c0",
                       "ops": [["send", "c0", "c0:w2i:1:started", ["none"]],
                               ["sleep", 1000.0] if case["prog"] == "sleep" else ["recv", "c0"]]})
        main += [["exec", "c0", 1, 1], ["recv", "c0"]]
    if case["ctl"] == "kill":
        main += [["io_ctl", 1, "kill"], ["io_ctl", 1, "wait"], ["procstate", "w2"]]
    elif case["ctl"] == "close_write":
        main += [["io_ctl", 1, "close_write"], ["io_ctl", 1, "wait"], ["procstate", "w2"]]
    elif case["ctl"] == "wait-for-self-exit":
        # wait() must block until the proxied process has gone and report its exit status
        main += [["io_ctl", 1, "wait"], ["procstate", "w2"]]
    elif case["ctl"] == "terminate-stopped-sub":
        # the group's own use of the control operations: a hung (stopped) proxied process must be gone after
        # terminate(timeout), exactly like a hung direct popen worker - the kill request has to get through
        main += [["signal", "w2", "stop"], ["terminate", 1.0], ["procstate", "w2"]]
    else:
        main += [["signal", "w2", "kill"], ["io_ctl", 1, "wait"], ["procstate", "w2"]]
    main += [["terminate", 5.0]]
    sub = {"gateways": specs, "actors": actors, "knobs": L.gen_knobs(rng, small_ok=False),
           "strategy": L.gen_strategy(rng), "preempt": [], "preempt_at": [], "faults": []}
    res = gwsim.run_case(sub, chooser, max_steps=400_000, max_time=2000.0)
    gwsim.check_harness(res)
    hist = L.Hist(res)
    V = []
    key0 = f"control;{case['ctl']}"
    for op, blabel, pname in res.blocked:
        V.append(v("blocked-forever", f"{op[2]};{key0}", f"op {op} blocked at {blabel}"))
    waits = [r for aid, oi, op, s1, s2, r in hist.ops(("io_ctl",)) if op[2] == "wait"]
    ps = [r for aid, oi, op, s1, s2, r in hist.ops(("procstate",))]
    ctl = [r for aid, oi, op, s1, s2, r in hist.ops(("io_ctl",)) if op[2] != "wait"]
    for r in ctl:
        if r is not None and r[0] == "exc":
            V.append(v("control-op-raised", f"{key0};{r[1]}", f"{r}"))
    if ps and ps[0] is not None and ps[0][0] == "proc":
        alive, status = ps[0][1], ps[0][2]
        if alive:
            V.append(v("control-op-did-not-reach-sub", key0, f"after {case['ctl']} + wait() the proxied process is still alive"))
        if waits and waits[0] is not None and waits[0][0] == "val" and not alive and waits[0][1] != status:
            V.append(v("wait-wrong-status", key0, f"ProxyIO.wait() -> {waits[0][1]!r}, the sub exited with {status!r}"))
    if waits and waits[0] is not None and waits[0][0] == "exc":
        V.append(v("wait-raised", f"{key0};{waits[0][1]}", f"{waits[0]}"))
    return gwsim.summarize(res, chooser, nontrivial=len(chooser.trace) > 0,
                           feats={("control", case["ctl"], case["prog"], case["backend"])}, sample=None, violations=V)
