"""C17 - RSync makes every target tree equal to the source, minimally (weakest fit: exploration).

What a schedule can influence: RSync.send() multiplexes 1-3 targets through channel callbacks into one queue, so
the per-target protocol steps interleave arbitrarily with the receiver threads.  The real RSync runs on the
initiator, the real rsync_remote module is shipped by remote_exec to 1-3 simulated workers, and both use the REAL
file system on a scratch tree under /dev/shm (the file system is not simulated; os.listdir order is a seeded
permutation).  Generated: source trees, prior target states, delete flag, working directory, modify-then-resync steps.
"""

from __future__ import annotations

import hashlib
import os
import shutil
import stat

from vsim import actors as A
from vsim import gwsim
from vsim import procs as P

from . import chanlib as L
from .chanlib import v

PROP = "C17"
LEVEL = "exploration"
BUDGET = {
    "quick": {"budget_s": 45, "chunk": 30, "shrink_s": 40},
    "thorough": {"budget_s": 900, "chunk": 80, "shrink_s": 120},
}
RULE = (
    "cases: generated source tree (1-10 entries: names with spaces/unicode/leading dots, empty/binary/70 KB files, modes 0600-0755, "
    "integer and fractional mtimes, nested dirs, relative/absolute/dangling/outside symlinks) x prior target state "
    "(empty, stale copy, plain copy with other mtimes/modes, same mtime but other size, same size with the mtime in the "
    "same second, entries of another kind, unrelated extras) x trailing slashes on the paths x targets named by absolute or relative paths (receiver and sender in different working directories) x delete flag x 1-3 targets x cwd inside/outside the "
    "tree x 0-2 modify-then-resync steps (content, size-preserving content, mode-only, mtime-only, add, remove, kind "
    "change) x seeded listdir order x schedules.  Non-trivial = at least one file was transferred under a schedule with "
    "real choices; distinct = distinct event-log digests."
)
ASSUMPTIONS = [
    "the file system is real (tmpfs under /dev/shm), not simulated: no disk faults are injected in this check",
    "symlink expectation is lexical: a link that (resolved against its own directory) points inside the source tree must "
    "point at the corresponding target path; all others are copied verbatim",
    "directories must carry the source mode OR-ed with the owner-rwx bits the receiver deliberately adds; directory "
    "mtimes are not part of the protocol",
]
COMPONENTS = {
    "real": ["rsync.RSync (send, add_target, _send_directory_structure, _send_item, _send_link_structure)",
             "rsync_remote.serve_rsync shipped via remote_exec(module)", "the gateway/channel stack with callbacks"],
    "stub": ["kernel pipes/processes/scheduler (vsim)"],
    "real-not-simulated": ["the file system of the scratch tree"],
}

NAMES = ["a", "b.txt", "with space", "ünï", "d", "e.bin", "sub", "x y z", "L", "..data", "...", "..2", ".hid"]


# ---------------------------------------------------------------------------
# tree descriptions: list of entries {"path": rel, "kind": file|dir|link, ...}
# ---------------------------------------------------------------------------


def gen_tree(rng, depth=0, prefix="", budget=None):
    budget = budget if budget is not None else [rng.randrange(1, 11)]
    out = []
    names = rng.sample(NAMES, rng.randrange(1, min(5, len(NAMES))))
    for nm in names:
        if budget[0] <= 0:
            break
        budget[0] -= 1
        rel = prefix + nm
        r = rng.random()
        if r < 0.55:
            size = rng.choice([0, 1, 10, 10, 300, 70000])
            out.append({"path": rel, "kind": "file", "seed": rng.randrange(1 << 20), "size": size,
                        "mode": rng.choice([0o644, 0o600, 0o755, 0o640, 0o700, 0o444, 0o664, 0o666, 0o775]),
                        "mtime": rng.choice([1000000000, 1234567890.5, 1500000000.123456, 946684800])})
        elif r < 0.8 and depth < 2:
            out.append({"path": rel, "kind": "dir", "mode": rng.choice([0o755, 0o700, 0o750, 0o555, 0o775, 0o777, 0o770, 0o1777])})
            out += gen_tree(rng, depth + 1, rel + "/", budget)
        else:
            how = rng.choice(["rel-in", "rel-in", "abs-in", "abs-out", "rel-out", "dangling"])
            out.append({"path": rel, "kind": "link", "how": how, "pick": rng.randrange(1 << 20)})
    return out


def gen(rng, tier):
    ntargets = rng.choice([1, 1, 2, 3])
    specs = []
    for i in range(ntargets):
        be = rng.choice(["thread", "thread", "main_thread_only", "gevent"])
        if rng.random() < 0.15:
            specs.append(f"popen//python=/sim/bare-python3//id=t{i}//execmodel={be}")
        else:
            specs.append(f"popen//id=t{i}//execmodel={be}")
    tree = gen_tree(rng)
    prior = [rng.choice(["empty", "empty", "stale", "otherkind", "extras", "copy", "samemtime", "samesecond"]) for _ in range(ntargets)]
    steps = []
    for _ in range(rng.choice([0, 1, 1, 2])):
        steps.append({"what": rng.choice(["content", "same-size-content", "mode-only", "mtime-only", "add", "remove",
                                          "kind-change", "nothing"]), "pick": rng.randrange(1 << 20)})
    knobs = L.gen_knobs(rng, small_ok=False)
    knobs["listdir_seed"] = rng.randrange(1 << 30)
    return {"gateways": specs, "actors": [{"side": "i", "gw": 0, "chan": None, "ops": [["c17_script"], ["terminate", 10.0]]}],
            "knobs": knobs, "strategy": L.gen_strategy(rng), "preempt": [],
            "preempt_at": L.gen_preempt_at(rng, ["send", "_send_item", "itemcallback", "_done", "_process_link", "add_target",
                                                 "_local_receive"], maxn=60, p=0.3),
            "faults": [], "tree": tree, "prior": prior, "steps": steps, "delete": rng.random() < 0.5,
            "cwd": rng.choice(["outside", "inside", "inside-sub"]), "scratch": "vsim-c17-%08x" % rng.randrange(1 << 32),
            "slashes": rng.choice([0, 0, 1, 2, 3]),
            # targets named by a relative path: resolved where the receiver runs (its working directory is not ours)
            "reldest": rng.choice(["", "", "", "plain", "dot", "updown"])}


def shrink_cases(case):
    if case.get("preempt_at"):
        c = dict(case)
        c["preempt_at"] = []
        yield c
    if case["steps"]:
        for i in range(len(case["steps"])):
            c = dict(case)
            c["steps"] = case["steps"][:i] + case["steps"][i + 1:]
            yield c
    if len(case["gateways"]) > 1:
        c = dict(case)
        c["gateways"] = case["gateways"][:1]
        c["prior"] = case["prior"][:1]
        yield c
    tree = case["tree"]
    for i in range(len(tree)):
        e = tree[i]
        if e["kind"] == "dir" and any(x["path"].startswith(e["path"] + "/") for x in tree):
            continue
        c = dict(case)
        c["tree"] = tree[:i] + tree[i + 1:]
        yield c
    if case["cwd"] != "outside":
        c = dict(case)
        c["cwd"] = "outside"
        yield c
    if case.get("reldest"):
        c = dict(case)
        c["reldest"] = ""
        yield c


# ---------------------------------------------------------------------------
# materialising and snapshotting trees (real file system)
# ---------------------------------------------------------------------------


def content(seed, size):
    if size == 0:
        return b""
    block = hashlib.sha256(str(seed).encode()).digest()
    return (block * (size // len(block) + 1))[:size]


def link_text(e, tree, srcdir, outside):
    files = [x["path"] for x in tree if x["kind"] in ("file", "dir") and x["path"] != e["path"]]
    tgt = files[e["pick"] % len(files)] if files else "missing-entry"
    here = os.path.dirname(e["path"])
    if e["how"] == "rel-in":
        return os.path.relpath(os.path.join("/r", tgt), os.path.join("/r", here) if here else "/r")
    if e["how"] == "abs-in":
        dotted = [f for f in files if f.startswith("..")]
        if dotted and e["pick"] % 2:
            # an in-tree name that merely begins with two dots is not "outside"
            tgt = dotted[e["pick"] % len(dotted)]
        return os.path.join(srcdir, tgt)
    if e["how"] == "abs-out":
        return os.path.join(outside, "elsewhere")
    if e["how"] == "rel-out":
        return "../" * (e["path"].count("/") + 1) + "outside-rel"
    return "no-such-target-%d" % (e["pick"] % 7)


def same_second(m):
    import math
    base = math.floor(m)
    return base + (0.25 if (m - base) > 0.4 else 0.75)


def build_tree(root, tree, srcdir=None, outside=None):
    os.makedirs(root, exist_ok=True)
    for e in tree:
        p = os.path.join(root, e["path"])
        if e["kind"] == "dir":
            os.makedirs(p, exist_ok=True)
        elif e["kind"] == "file":
            os.makedirs(os.path.dirname(p), exist_ok=True)
            with open(p, "wb") as f:
                f.write(content(e["seed"], e["size"]))
            os.chmod(p, e["mode"])
            os.utime(p, (e["mtime"], e["mtime"]))
        else:
            os.makedirs(os.path.dirname(p), exist_ok=True)
            os.symlink(link_text(e, tree, srcdir or root, outside or "/nonexistent"), p)
    for e in reversed(tree):
        if e["kind"] == "dir":
            os.chmod(os.path.join(root, e["path"]), e["mode"] | 0o700)  # keep it traversable for ourselves


def snapshot(root):
    out = {}
    for dirpath, dirnames, filenames in os.walk(root):
        for nm in list(dirnames) + filenames:
            p = os.path.join(dirpath, nm)
            rel = os.path.relpath(p, root)
            st = os.lstat(p)
            if stat.S_ISLNK(st.st_mode):
                out[rel] = ("link", os.readlink(p))
                if nm in dirnames:
                    dirnames.remove(nm)
            elif stat.S_ISDIR(st.st_mode):
                out[rel] = ("dir", stat.S_IMODE(st.st_mode))
            else:
                with open(p, "rb") as f:
                    h = hashlib.sha1(f.read()).hexdigest()[:16]
                out[rel] = ("file", stat.S_IMODE(st.st_mode), st.st_mtime, st.st_size, h)
    return out


def expected_link(srcdir, destdir, rel, text):
    here = os.path.dirname(os.path.join(srcdir, rel))
    lexical = os.path.normpath(os.path.join(here, text))
    if lexical == srcdir or lexical.startswith(srcdir + os.sep):
        return ("resolves", os.path.normpath(os.path.join(destdir, os.path.relpath(lexical, srcdir))))
    return ("verbatim", text)


def compare(srcdir, destdir, delete, extras_before, key0, tag, ever):
    V = []
    src = snapshot(srcdir)
    dst = snapshot(destdir)
    ever.update(src)

    def was_synced(rel):
        return rel in ever or any(rel.startswith(r + os.sep) for r in ever)

    for rel, s in sorted(src.items()):
        d = dst.get(rel)
        if d is None:
            V.append(v("entry-missing-at-target", f"{s[0]};{key0}", f"{tag}: {rel!r} ({s[0]}) missing"))
            continue
        if s[0] != d[0]:
            V.append(v("entry-kind-differs", f"{s[0]}->{d[0]};{key0}", f"{tag}: {rel!r} is {d[0]} at the target, {s[0]} in the source"))
            continue
        if s[0] == "file":
            if s[4] != d[4] or s[3] != d[3]:
                V.append(v("file-content-differs", key0, f"{tag}: {rel!r}"))
            if s[1] != d[1]:
                V.append(v("file-mode-differs", f"{oct(s[1])}->{oct(d[1])}", f"{tag}: {rel!r} source {oct(s[1])} target {oct(d[1])}"))
            if s[2] != d[2]:
                V.append(v("file-mtime-differs", key0, f"{tag}: {rel!r} source {s[2]!r} target {d[2]!r}"))
        elif s[0] == "dir":
            if (s[1] | 0o700) != d[1]:
                V.append(v("dir-mode-differs", key0, f"{tag}: {rel!r} source {oct(s[1])} target {oct(d[1])}"))
        else:
            how, want = expected_link(srcdir, destdir, rel, s[1])
            got = d[1]
            if how == "verbatim":
                if got != want:
                    V.append(v("symlink-wrong-target", f"verbatim;{key0}", f"{tag}: {rel!r} -> {got!r}, source link text {want!r}"))
            else:
                here = os.path.dirname(os.path.join(destdir, rel))
                if os.path.normpath(os.path.join(here, got)) != want:
                    V.append(v("symlink-wrong-target", f"inside-tree;{key0}",
                               f"{tag}: {rel!r} -> {got!r} (source text {s[1]!r}); should lead to {want!r}"))
    for rel, d in sorted(dst.items()):
        if rel in src:
            continue
        under_replaced = any(rel.startswith(r + os.sep) and src[r][0] != "dir" for r in src)
        if delete:
            V.append(v("extra-entry-not-deleted", key0, f"{tag}: {rel!r} remains at the target with delete=True"))
        elif rel not in extras_before and not under_replaced and not was_synced(rel):
            V.append(v("unexpected-entry-created", key0, f"{tag}: {rel!r}"))
    if not delete:
        for rel, d in sorted(extras_before.items()):
            if rel in src or any(rel.startswith(r + os.sep) or r.startswith(rel + os.sep) for r in src) or was_synced(rel):
                continue
            if dst.get(rel) != d:
                V.append(v("unrelated-entry-touched", key0, f"{tag}: {rel!r} was {d}, now {dst.get(rel)}"))
    return V


def apply_step(srcdir, tree, step, outside):
    files = []
    for dirpath, dirnames, filenames in os.walk(srcdir):
        for nm in filenames:
            p_ = os.path.join(dirpath, nm)
            if not os.path.islink(p_):
                files.append({"path": os.path.relpath(p_, srcdir), "size": os.path.getsize(p_)})
    files.sort(key=lambda e: e["path"])
    what = step["what"]
    if what in ("content", "same-size-content", "mode-only", "mtime-only", "remove", "kind-change") and not files:
        return "nothing"
    if what == "nothing":
        return what
    if what == "add":
        p = os.path.join(srcdir, "added-%d" % (step["pick"] % 3))
        with open(p, "wb") as f:
            f.write(content(step["pick"], 33))
        # (a distinct mtime per generated content: equal size + equal mtime is rsync's definition of "unchanged")
        mt = 1111111111 + step["pick"] % 100000
        os.utime(p, (mt, mt))
        return what
    e = files[step["pick"] % len(files)]
    p = os.path.join(srcdir, e["path"])
    st = os.lstat(p)
    if what == "content":
        with open(p, "wb") as f:
            f.write(content(step["pick"], e["size"] + 5))
        os.utime(p, (st.st_mtime + 10, st.st_mtime + 10))
    elif what == "same-size-content":
        with open(p, "wb") as f:
            f.write(content(step["pick"] + 1, e["size"]))
        os.utime(p, (st.st_mtime + 10, st.st_mtime + 10))
    elif what == "mode-only":
        os.chmod(p, [0o600, 0o644, 0o640, 0o755][step["pick"] % 4])
        os.utime(p, (st.st_mtime, st.st_mtime))
    elif what == "mtime-only":
        os.utime(p, (st.st_mtime + 100.25, st.st_mtime + 100.25))
    elif what == "remove":
        os.unlink(p)
    elif what == "kind-change":
        os.unlink(p)
        os.mkdir(p)
        with open(os.path.join(p, "inner"), "wb") as f:
            f.write(b"inner")
        os.utime(os.path.join(p, "inner"), (1222222222, 1222222222))
    return what


def c17_script(ctx, aid, oi, table, op):
    case = ctx.case
    rs = ctx.w.mods["rsync"]
    s = ctx.s
    cur = s.current
    base = os.path.join("/dev/shm", case["scratch"] + "-" + os.environ.get("VERIF_RUN_TAG", "00000000"))
    shutil.rmtree(base, ignore_errors=True)
    srcdir = os.path.join(base, "src")
    outside = os.path.join(base, "outside")
    oldcwd = os.getcwd()
    oldmask = os.umask(0o022)  # the usual umask, whatever the checker was started with: receivers inherit it
    V = []
    nsent = 0
    try:
        cur.notrace += 1
        try:
            os.makedirs(outside)
            build_tree(srcdir, case["tree"], srcdir, outside)
            dests = []
            extras = []
            for i, prior in enumerate(case["prior"]):
                d = os.path.join(base, "dst%d" % i)
                if prior == "stale":
                    build_tree(d, [dict(e, seed=e.get("seed", 0) + 1, mtime=e.get("mtime", 0) - 50) if e["kind"] == "file" else e
                                   for e in case["tree"]], srcdir, outside)
                elif prior == "samemtime":
                    # same modification time as the source, other size and content: only the size tells
                    build_tree(d, [dict(e, seed=e.get("seed", 0) + 7, size=e.get("size", 0) + 3) if e["kind"] == "file" else e
                                   for e in case["tree"]], srcdir, outside)
                elif prior == "samesecond":
                    # same size, other content, modification time within the same whole second as the source's
                    build_tree(d, [dict(e, seed=e.get("seed", 0) + 3, mtime=same_second(e.get("mtime", 0))) if e["kind"] == "file" else e
                                   for e in case["tree"]], srcdir, outside)
                elif prior == "copy":
                    # identical content, but other mtimes and modes (e.g. a plain cp -r)
                    build_tree(d, [dict(e, mtime=e.get("mtime", 0) + 77, mode=0o644) if e["kind"] == "file" else e
                                   for e in case["tree"]], srcdir, outside)
                elif prior == "otherkind":
                    os.makedirs(d)
                    for e in case["tree"]:
                        p = os.path.join(d, e["path"])
                        if "/" in e["path"]:
                            continue
                        if e["kind"] == "file":
                            os.makedirs(os.path.join(p, "was-a-dir"))
                        elif e["kind"] == "dir":
                            with open(p, "wb") as f:
                                f.write(b"was a file")
                        else:
                            with open(p, "wb") as f:
                                f.write(b"was a file not a link")
                elif prior == "extras":
                    os.makedirs(os.path.join(d, "unrelated-dir"))
                    with open(os.path.join(d, "unrelated-dir", "keep"), "wb") as f:
                        f.write(b"keep me")
                    with open(os.path.join(d, "unrelated.txt"), "wb") as f:
                        f.write(b"unrelated")
                    os.utime(os.path.join(d, "unrelated.txt"), (1300000000, 1300000000))
                dests.append(d)
                extras.append(snapshot(d) if os.path.isdir(d) else {})
            if case.get("reldest"):
                P.cwd_model_on(ctx.w)
            if case["cwd"] == "inside":
                os.chdir(srcdir)
            elif case["cwd"] == "inside-sub":
                subs = [e["path"] for e in case["tree"] if e["kind"] == "dir"]
                os.chdir(os.path.join(srcdir, subs[0]) if subs else srcdir)
            elif case.get("reldest"):
                os.chdir(outside)
            else:
                os.chdir("/")
        finally:
            cur.notrace -= 1
        names = list(dests)
        if case.get("reldest"):
            # every receiver works in the scratch directory, the sending side somewhere else
            for gw in ctx.gws:
                gw.remote_exec("import os\nos.chdir(%r)" % base).waitclose()
            form = {"plain": "dst%d", "dot": "./dst%d", "updown": "outside/../dst%d"}[case["reldest"]]
            names = [form % i for i in range(len(dests))]

        def one_sync(tag):
            reported = []

            class R(rs.RSync):
                def _report_send_file(self, gateway, modified_rel_path):
                    reported.append((str(gateway.id), modified_rel_path))

            # the same directories, spelt with or without a trailing slash
            sl = case.get("slashes", 0)
            r = R(srcdir + ("/" if sl & 1 else ""), verbose=False)
            for gw, d in zip(ctx.gws, names):
                r.add_target(gw, d + ("/" if sl & 2 else ""), delete=case["delete"])
            r.send()
            return reported

        ever = [set() for _ in dests]
        steps = [{"what": "initial"}] + list(case["steps"]) + [{"what": "resync-unchanged"}]
        before = None
        for si, st in enumerate(steps):
            cur.notrace += 1
            try:
                if st["what"] not in ("initial", "resync-unchanged"):
                    st = dict(st, what=apply_step(srcdir, case["tree"], st, outside))
                if st["what"] == "resync-unchanged":
                    before = [snapshot(d) for d in dests]
            finally:
                cur.notrace -= 1
            reported = one_sync(st["what"])
            nsent += len(reported)
            cur.notrace += 1
            try:
                for i, d in enumerate(dests):
                    V += compare(srcdir, d, case["delete"], extras[i], case["cwd"], f"step {si} ({st['what']}) target {i}",
                                 ever[i])
                if st["what"] == "resync-unchanged":
                    if reported:
                        V.append(v("resync-not-idempotent", "content-transferred",
                                   f"re-sync of an unchanged tree sent {reported[:4]}"))
                    after = [snapshot(d) for d in dests]
                    if after != before:
                        V.append(v("resync-not-idempotent", "target-changed", "re-sync of an unchanged tree changed a target"))
            finally:
                cur.notrace -= 1
            if V:
                break
    finally:
        os.chdir(oldcwd)
        if case.get("reldest"):
            P.cwd_model_off(ctx.w, oldcwd)
        os.umask(oldmask)
        shutil.rmtree(base, ignore_errors=True)
    ctx.rec(aid, oi, "sub", ("rsync", nsent, V[:6]))
    return ("ok",)


A.EXTRA_OPS["c17_script"] = c17_script


def execute(case, chooser):
    res = gwsim.run_case(case, chooser, max_steps=600_000)
    gwsim.check_harness(res)
    hist = L.Hist(res)
    V = L.generic_rules(res, hist, allow_exc=set(), key=case["cwd"])
    nsent = 0
    for s_, d in hist.sub.get((0, 0), ()):
        if d[0] == "rsync":
            nsent = d[1]
            V += d[2]
    sample = None
    if chooser.rng is not None and chooser.rng.random() < 0.01:
        sample = {k: case[k] for k in ("gateways", "tree", "prior", "steps", "delete", "cwd")}
    feats = {(len(case["gateways"]), case["delete"], case["cwd"], tuple(s_["what"] for s_ in case["steps"]),
              tuple(sorted(set(case["prior"]))))}
    return gwsim.summarize(res, chooser, nontrivial=nsent > 0 and len(chooser.trace) > 0, feats=feats, sample=sample,
                           violations=V)
