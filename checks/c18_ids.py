"""C18 - channel ids never collide, channels travel over channels intact, no growth.

Two scenario families:
 ids    - 1-3 tasks per side concurrently create channels (newchannel on both sides, remote_exec on the initiator)
          under line preemption inside the id allocator; all ids handed out on one gateway must be pairwise distinct.
 cycles - long histories (tens to thousands) of open -> transfer (bare or nested in list/tuple/dict) -> use ->
          close/drop(+gc) conversations driven from both sides in lockstep; every labelled item sent on a transferred
          channel must arrive on the originator's channel object; afterwards remote_status().numchannels and the
          'N active channels' of repr(gateway) must be back at their baseline.
"""

from __future__ import annotations

import re

from vsim import gwsim

from . import chanlib as L
from .chanlib import v

PROP = "C18"
LEVEL = "exploration"
BUDGET = {
    "quick": {"budget_s": 45, "chunk": 40, "shrink_s": 40},
    "thorough": {"budget_s": 900, "chunk": 6, "shrink_s": 120, "chunk_wall": 900.0},
}
RULE = (
    "cases: (ids) 1-3 concurrent creator tasks per side x 1-6 creations each (newchannel / remote_exec) with 0-3 line "
    "preemptions aimed at the allocator; (cycles) 10-400 (thorough: up to 3000) lockstep conversations with generated "
    "creator side, nesting and ending (close by creator / receiver / both, drop by one or both, callback + close, callback + drop with the peer holding / closing with an error / having a callback of its own, a failing close(<unserialisable error>) before the proper close or drop), "
    "gc every k cycles; transports popen/bare/socket/proxy, backends thread/main_thread_only/gevent.  Non-trivial = "
    "at least two channels were created under a schedule with real choices; distinct = distinct event-log digests."
)
ASSUMPTIONS = [
    "reference dropping is real CPython refcounting; cyclic GC runs only at explicit gc ops (both sides gc before the "
    "table sizes are compared)",
    "schedules sampled (sync points + <=3 line preemptions)",
]
COMPONENTS = {
    "real": ["ChannelFactory.new / _channels (WeakValueDictionary) / _callbacks / _no_longer_opened", "Channel.__del__",
             "_Serializer.save_Channel / Unserializer.load_channel", "Gateway.remote_status / __repr__"],
    "stub": ["kernel pipes/sockets/processes (vsim)", "explicit gc ops"],
}


def gen(rng, tier):
    transport = rng.choices(["popen", "bare", "socket", "proxy"], [55, 10, 15, 20])[0]
    backend = rng.choice(["thread", "thread", "main_thread_only", "gevent"])
    specs, gwi = L.gateways_for(transport, backend)
    knobs = L.gen_knobs(rng, small_ok=False)
    actors = [{"side": "i", "gw": gwi, "chan": None, "ops": []}]
    main = actors[0]["ops"]
    W = {"side": "w", "gw": gwi, "chan": "c0", "ops": []}
    actors.append(W)
    main.append(["exec", "c0", 1, gwi])
    mode = rng.choice(["ids", "cycles", "cycles"])
    if mode == "ids":
        ni = rng.choice([1, 2, 3])
        nw = rng.choice([1, 2, 3])
        spawned = []
        for side, cnt in (("i", ni), ("w", nw)):
            for t in range(cnt):
                aid = len(actors)
                ops = []
                for k in range(rng.randrange(1, 7)):
                    lab = f"n{aid}_{k}"
                    if side == "i" and backend != "main_thread_only" and rng.random() < 0.3:
                        ops.append(["exec_src", lab, "pass", gwi])
                    else:
                        ops.append(["newchan", lab])
                    if rng.random() < 0.3:
                        ops.append(["yield", rng.randrange(1, 3)])
                actors.append({"side": side, "gw": gwi, "chan": "c0", "ops": ops})
                spawned.append((side, aid))
        for side, aid in spawned:
            (main if side == "i" else W["ops"]).append(["spawn", aid])
        for side, aid in spawned:
            (main if side == "i" else W["ops"]).append(["join", aid, 600])
        W["ops"].append(["send", "c0", "c0:w2i:1:done", ["none"]])
        main.append(["recv", "c0"])
        preempt = sorted(rng.sample(range(1, 2500), rng.choice([0, 1, 2, 3, 3])))
        ncyc = 0
        seed = 0
    else:
        ncyc = rng.choice([10, 25, 60, 150, 400]) if tier == "quick" else rng.choice([60, 400, 1000, 3000])
        seed = rng.randrange(1 << 30)
        gc_every = rng.choice([0, 1, 7, 50])
        if ncyc >= 1000:
            # long histories keep to ordinary buffer sizes: with 64-byte pipes written byte by byte a run of thousands
            # of conversations would need more sync points than the step cap that tells progress from a livelock
            knobs["pipe_cap"] = max(knobs["pipe_cap"], 4096)
            knobs["sock_cap"] = max(knobs["sock_cap"], 4096)
            if knobs["chunk"] == "one":
                knobs["chunk"] = "random"
        main += [["status"], ["repr_gw"], ["ncallbacks"], ["cycles_i", "c0", ncyc, seed, gc_every],
                 ["send", "c0", "c0:i2w:0:ping", ["none"]], ["recv", "c0"], ["gc"],
                 ["send", "c0", "c0:i2w:0:ping2", ["none"]], ["recv", "c0"],
                 ["status"], ["repr_gw"], ["ncallbacks"], ["send", "c0", "c0:i2w:0:fin", ["none"]]]
        W["ops"] += [["ncallbacks"], ["cycles_w", "c0", ncyc, seed, gc_every], ["recv", "c0"], ["gc"],
                     ["send", "c0", "c0:w2i:1:pong", ["none"]], ["recv", "c0"], ["gc"],
                     ["send", "c0", "c0:w2i:1:pong2", ["none"]], ["recv", "c0"], ["ncallbacks"]]
        preempt = L.gen_preempt(rng, 6000)
    main.append(["waitclose", "c0", 900])
    main.append(["terminate", 10.0])
    return {"gateways": specs, "actors": actors, "knobs": knobs, "strategy": L.gen_strategy(rng),
            "preempt": preempt,
            "preempt_at": L.gen_preempt_at(rng, ["new", "new", "newchannel", "remote_exec", "_local_close",
                                                 "_no_longer_opened", "load_channel", "__del__"],
                                           maxn=60 if mode == "ids" else 400, p=0.7),
            "faults": [], "transport": transport, "backend": backend, "gwi": gwi,
            "mode": mode, "ncyc": ncyc}


def shrink_cases(case):
    if case.get("preempt"):
        for i in range(len(case["preempt"])):
            c = dict(case)
            c["preempt"] = case["preempt"][:i] + case["preempt"][i + 1:]
            yield c
    if case.get("preempt_at"):
        for i in range(len(case["preempt_at"])):
            c = dict(case)
            c["preempt_at"] = case["preempt_at"][:i] + case["preempt_at"][i + 1:]
            yield c
    if case["mode"] == "cycles" and case["ncyc"] > 2:
        for n in (1, 2, case["ncyc"] // 2):
            c = dict(case)
            c["ncyc"] = n
            c["actors"] = [dict(a) for a in case["actors"]]
            for a in c["actors"]:
                a["ops"] = [([o[0], o[1], n] + o[3:]) if o[0] in ("cycles_i", "cycles_w") else o for o in a["ops"]]
            yield c


def execute(case, chooser):
    res = gwsim.run_case(case, chooser, max_steps=4_000_000 if case["ncyc"] > 500 else 400_000)
    gwsim.check_harness(res)
    hist = L.Hist(res)
    V, ncreated = oracle(case, res, hist)
    sample = None
    if chooser.rng is not None and chooser.rng.random() < 0.01:
        sample = {k: case[k] for k in ("mode", "transport", "backend", "ncyc", "knobs", "strategy", "preempt")}
        sample["actors"] = [{"side": a["side"], "ops": [o[:5] for o in a["ops"]][:12]} for a in case["actors"]]
    feats = {(case["mode"], case["transport"], case["backend"], min(case["ncyc"], 1000))}
    return gwsim.summarize(res, chooser, nontrivial=ncreated >= 2 and len(chooser.trace) > 0, feats=feats,
                           sample=sample, violations=V)


def oracle(case, res, hist):
    key0 = case["mode"]
    V = L.generic_rules(res, hist, allow_exc=set(), key=key0)
    created = []  # (side, id, what)
    for aid, oi, op, s1, s2, r in hist.ops(("newchan", "exec", "exec_src")):
        if r is not None and r[0] == "chan":
            created.append((case["actors"][aid]["side"], r[1], f"{op[0]} by actor {aid}"))
    for aid, oi, op, s1, s2, r in hist.ops(("cycles_i", "cycles_w")):
        side = case["actors"][aid]["side"]
        if r is None or r[0] != "cycles":
            continue
        for cid in r[2]:
            created.append((side, cid, f"cycle on {side}"))
        for b in r[3]:
            V.append(v(b[0], f"{key0};{b[2]}", f"cycle {b[1]} ({b[2]}): {b[3]}"))
        if r[1] != case["ncyc"]:
            V.append(v("cycles-incomplete", key0, f"{r[1]} of {case['ncyc']}"))
    seen = {}
    for side, cid, what in created:
        if cid in seen:
            V.append(v("id-collision", f"{seen[cid][0]}{side}", f"channel id {cid} handed out twice: {seen[cid][1]} and {what}"))
        seen[cid] = (side, what)
    if case["mode"] == "cycles":
        st = [(s2, r) for aid, oi, op, s1, s2, r in hist.ops(("status",)) if r and r[0] == "status"]
        rp = [r[1] for aid, oi, op, s1, s2, r in hist.ops(("repr_gw",)) if r and r[0] == "val"]
        if len(st) == 2:
            if st[1][1][1] > st[0][1][1]:  # growth (a smaller table is harmless)
                V.append(v("table-growth", "worker;numchannels",
                           f"remote_status().numchannels {st[0][1][1]} before, {st[1][1][1]} after {case['ncyc']} cycles"))
        for side, aid_ in (("initiator", 0), ("worker", 1)):
            nc = [r[1] for aid, oi, op, s1, s2, r in hist.ops(("ncallbacks",)) if aid == aid_ and r and r[0] == "val"]
            if len(nc) == 2 and nc[0] >= 0 and nc[1] > nc[0]:
                V.append(v("table-growth", f"{side};callback-table",
                           f"len(_callbacks) {nc[0]} before, {nc[1]} after {case['ncyc']} cycles"))
        if len(rp) == 2:
            n0 = re.search(r"(\d+) active channels", rp[0])
            n1 = re.search(r"(\d+) active channels", rp[1])
            if n0 and n1 and int(n1.group(1)) > int(n0.group(1)):
                V.append(v("table-growth", "initiator;active-channels", f"repr before: {rp[0]}; after: {rp[1]}"))
    return V, len(created)
