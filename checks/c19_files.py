"""C19 - channel files behave like files over the concatenated items.

A sender emits a generated split of a text (or byte) string into channel items - including empty items - at
scheduler-chosen moments and then ends; a reader runs a generated sequence of read(n) / readline() calls on
makefile('r') while items are still arriving.  A reference io.StringIO / io.BytesIO over the concatenation is
stepped in lock-step.  Writer side: makefile('w') writes, flush, close with and without proxyclose, write after close.
"""

from __future__ import annotations

import io

from vsim import gwsim

from . import chanlib as L
from .chanlib import v

PROP = "C19"
LEVEL = "exploration"
BUDGET = {
    "quick": {"budget_s": 40, "chunk": 100, "shrink_s": 40},
    "thorough": {"budget_s": 900, "chunk": 300, "shrink_s": 120},
}
RULE = (
    "cases: (read) a text or bytes string of 0-60 characters over the alphabet {a, b, newline, non-ASCII} split into 0-8 "
    "items (empty items included) x a sequence of 1-8 read(n)/readline() calls (n in 0..70) x sender pacing (yields, "
    "sleeps) x reader side (initiator or worker) x transports; (write) 0-6 writes with flushes, proxyclose on/off, write "
    "after close.  Schedules uniform/sticky/PCT + targeted preemption in ChannelFileRead.  Non-trivial = at least one "
    "file call returned under a schedule with real choices; distinct = distinct event-log digests."
)
ASSUMPTIONS = [
    "reference semantics: io.StringIO (text items) / io.BytesIO (bytes items) over the concatenation of the items sent",
    "'writing after close raises OSError' is checked for files whose close() closed the channel (proxyclose=True)",
]
COMPONENTS = {
    "real": ["ChannelFileRead.read/readline", "ChannelFileWrite.write/flush", "ChannelFile.close", "Channel.makefile",
             "the gateway stack underneath"],
    "stub": ["kernel pipes/sockets/processes (vsim)"],
}

ALPHA_T = ["a", "b", "\n", "\n", "é", "x"]
ALPHA_B = [b"a", b"b", b"\n", b"\n", b"\xff", b"x"]


def gen(rng, tier):
    transport = rng.choices(["popen", "bare", "socket", "proxy"], [60, 10, 15, 15])[0]
    backend = rng.choice(["thread", "thread", "main_thread_only", "gevent"])
    specs, gwi = L.gateways_for(transport, backend)
    knobs = L.gen_knobs(rng, small_ok=transport == "popen")
    if transport != "popen" and knobs["pipe_cap"] < 4096:
        knobs["pipe_cap"] = 4096
    actors = [{"side": "i", "gw": gwi, "chan": None, "ops": []}]
    main = actors[0]["ops"]
    W = {"side": "w", "gw": gwi, "chan": "c0", "ops": []}
    actors.append(W)
    main.append(["exec", "c0", 1, gwi])
    mode = rng.choice(["read", "read", "read", "write"])
    info = {}
    if mode == "read":
        binary = rng.random() < 0.35
        n = rng.randrange(0, 61)
        if binary:
            data = b"".join(rng.choice(ALPHA_B) for _ in range(n))
        else:
            data = "".join(rng.choice(ALPHA_T) for _ in range(n))
        k = rng.randrange(0, 9)
        cuts = sorted(rng.randrange(0, n + 1) for _ in range(k))
        pieces = []
        prev = 0
        for c in cuts + [n]:
            pieces.append(data[prev:c])
            prev = c
        if k == 0 and rng.random() < 0.3:
            pieces = []
            data = data[:0]
        calls = []
        for _ in range(rng.randrange(1, 9)):
            if rng.random() < 0.5:
                calls.append(["read", rng.choice([0, 1, 2, 3, 5, 8, 13, 70])])
            else:
                calls.append(["readline"])
        reader_side = rng.choice(["i", "w"])
        sops = []
        for p in pieces:
            sops.append(["send_raw", "c0", {"__bytes__": p.hex()} if binary else p])
            r = rng.random()
            if r < 0.25:
                sops.append(["yield", rng.randrange(1, 5)])
            elif r < 0.35:
                sops.append(["sleep", rng.choice([0.1, 1.0])])
        rops = [["mkfile_r", "c0", calls]]
        if reader_side == "i":
            W["ops"] = sops
            actors.append({"side": "i", "gw": gwi, "chan": "c0", "ops": rops})
            main += [["spawn", 2], ["join", 2, 600]]
        else:
            # the initiator sends and then closes the channel so that the reader sees the end
            actors.append({"side": "i", "gw": gwi, "chan": "c0", "ops": sops + [["close", "c0"]]})
            W["ops"] = rops
            main += [["spawn", 2], ["join", 2, 600], ["join", 1, 600]]
        info = {"binary": binary, "pieces": [p.hex() if binary else p for p in pieces], "calls": calls,
                "reader": 2 if reader_side == "i" else 1, "reader_side": reader_side}
    else:
        binary = rng.random() < 0.3
        writes = []
        for _ in range(rng.randrange(0, 7)):
            if rng.random() < 0.2:
                writes.append("#flush")
            else:
                ln = rng.randrange(0, 12)
                if binary:
                    writes.append({"__bytes__": b"".join(rng.choice(ALPHA_B) for _ in range(ln)).hex()})
                else:
                    writes.append("".join(rng.choice(ALPHA_T) for _ in range(ln)))
        writer_side = rng.choice(["w", "i"])
        # (inside a remote_exec body the exec channel cannot be closed explicitly - by design, see C06)
        proxyclose = rng.random() < 0.6 and writer_side == "i"
        late = rng.choice([None, "late"]) if proxyclose else None
        wops = [["mkfile_w", "c0", writes, proxyclose, late]]
        if not proxyclose:
            wops.append(["send_raw", "c0", "after-close"])
        if writer_side == "w":
            W["ops"] = wops
            actors.append({"side": "i", "gw": gwi, "chan": "c0", "ops": [["drain", "c0"]]})
            main += [["spawn", 2], ["join", 2, 600]]
        else:
            actors.append({"side": "i", "gw": gwi, "chan": "c0", "ops": wops + ([] if proxyclose else [["close", "c0"]])})
            W["ops"] = [["drain", "c0"]]
            main += [["spawn", 2], ["join", 2, 600], ["join", 1, 600]]
        info = {"binary": binary, "writes": writes, "proxyclose": proxyclose, "late": late,
                "writer": 1 if writer_side == "w" else 2, "drainer": 2 if writer_side == "w" else 1}
    main.append(["terminate", 10.0])
    return {"gateways": specs, "actors": actors, "knobs": knobs, "strategy": L.gen_strategy(rng),
            "preempt": [], "preempt_at": L.gen_preempt_at(rng, ["read", "readline", "receive", "_local_receive", "close"],
                                                          maxn=60, p=0.4),
            "faults": [], "transport": transport, "backend": backend, "gwi": gwi, "mode": mode, "info": info}


def shrink_cases(case):
    if case.get("preempt_at"):
        c = dict(case)
        c["preempt_at"] = []
        yield c
    k = case["knobs"]
    if k.get("chunk") != "greedy" or k.get("pipe_cap") != 65536:
        c = dict(case)
        c["knobs"] = dict(k, chunk="greedy", pipe_cap=65536)
        yield c
    if case["mode"] == "read":
        info = case["info"]
        calls = info["calls"]
        if len(calls) > 1:
            for i in range(len(calls)):
                c = dict(case)
                c["info"] = dict(info, calls=calls[:i] + calls[i + 1:])
                c["actors"] = [dict(a) for a in case["actors"]]
                ra = c["actors"][info["reader"]]
                ra["ops"] = [["mkfile_r", "c0", c["info"]["calls"]]]
                yield c


def execute(case, chooser):
    res = gwsim.run_case(case, chooser, max_steps=150_000)
    gwsim.check_harness(res)
    hist = L.Hist(res)
    V, n = oracle(case, res, hist)
    sample = None
    if chooser.rng is not None and chooser.rng.random() < 0.004:
        sample = {"mode": case["mode"], "transport": case["transport"], "info": case["info"], "knobs": case["knobs"]}
    feats = {(case["mode"], case["transport"], case["info"].get("binary"), case["info"].get("reader_side"),
              case["info"].get("proxyclose"))}
    return gwsim.summarize(res, chooser, nontrivial=n > 0 and len(chooser.trace) > 0, feats=feats, sample=sample,
                           violations=V)


def unhex(x):
    if isinstance(x, dict):
        return bytes.fromhex(x["__bytes__"])
    return x


def oracle(case, res, hist):
    info = case["info"]
    key0 = f"{case['mode']};{'bytes' if info['binary'] else 'text'}"
    allow = set()
    if case["mode"] == "read" and info.get("reader_side") == "w":
        allow = {("send_raw", "OSError"), ("close", "OSError")}  # the reading body may end before the last item was sent
    V = L.generic_rules(res, hist, allow_exc=allow, key=key0)
    if case["mode"] == "read":
        pieces = [bytes.fromhex(p) if info["binary"] else p for p in info["pieces"]]
        whole = (b"" if info["binary"] else "").join(pieces)
        ref = io.BytesIO(whole) if info["binary"] else io.StringIO(whole, newline="")
        aid = info["reader"]
        outs = [d for s_, d in hist.sub.get((aid, 0), ()) if d[0] == "fileout"]
        r = hist.ret.get((aid, 0))
        n = 0
        for i, call in enumerate(info["calls"]):
            exp = ref.read(call[1]) if call[0] == "read" else ref.readline()
            if i >= len(outs):
                break
            got = outs[i][2]
            n += 1
            # (an empty result only has to be empty: with no item received the file cannot know the item type)
            same = (len(exp) == 0 and len(got) == 0) or (got == exp and type(got) is type(exp))
            if not same:
                V.append(v("file-model-mismatch", f"{key0};{call[0]}",
                           f"call {i} {call}: got {got!r}, a file over {whole!r} gives {exp!r} (items {pieces!r})"))
                break
        return V, n
    # write mode
    writes = [unhex(w) for w in info["writes"] if w != "#flush"]
    daid = info["drainer"]
    got_items = [d[2] for s_, d in hist.sub.get((daid, 0), ()) if d[0] == "item"]
    from vsim.actors import canon
    exp_items = [canon(w) for w in writes]
    if not info["proxyclose"]:
        exp_items.append(canon("after-close"))
    wr = hist.ret.get((info["writer"], 0))
    n = len(got_items)
    if wr is not None and wr[1][0] == "wfile":
        if got_items != exp_items and hist.ret.get((daid, 0)) is not None:
            V.append(v("write-not-one-item-each", key0, f"writes {writes!r} arrived as {got_items}"))
        closed, late = wr[1][1], wr[1][2]
        if closed != bool(info["proxyclose"]):
            V.append(v("close-proxyclose-mismatch", f"{key0};proxyclose={int(bool(info['proxyclose']))}",
                       f"after file.close() channel.isclosed() == {closed}"))
        if info["late"] and late != "OSError":
            V.append(v("write-after-close-accepted", key0, f"write after close -> {late}"))
    return V, n
