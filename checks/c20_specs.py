"""C20 - specs parse faithfully and group ids stay unique.

Schedule part (the reason this is a simulation target): 2-3 initiator tasks concurrently call
group.makegateway(spec) with auto ids and explicit ids that collide with live and with auto-generated ids,
interleaved with gateway.exit(); the container protocol of the group is inspected after every step.
Input part: specs over an alphabet containing '=', ':', '/', space and non-ASCII are compared with a small
independent parser (reported separately in the evidence - it has no schedule in it).
"""

from __future__ import annotations

import random

from vsim import gwsim
from vsim.world import load_execnet

from . import chanlib as L
from .chanlib import v

PROP = "C20"
LEVEL = "exploration"
BUDGET = {
    "quick": {"budget_s": 40, "chunk": 100, "shrink_s": 40},
    "thorough": {"budget_s": 900, "chunk": 300, "shrink_s": 120},
}
RULE = (
    "cases: 2-3 concurrent initiator tasks x 1-4 steps each (makegateway with auto id / explicit id from a small colliding "
    "pool incl. 'gw0'..'gw3', deliberately failing specs followed by a retry, allocate_id(spec) then makegateway(spec), gateway.exit() once or twice, container snapshot incl. membership and lookup of every gateway object ever created) under uniform/sticky/PCT schedules with targeted "
    "preemption in allocate_id/_register/makegateway; plus 6 generated spec strings per run (keys/values over an "
    "alphabet with '=', ':', '/', space, non-ASCII, 'env:' prefixes, duplicates) checked against an independent parser (attributes, str, equality and hash by text - also after id/execmodel were filled in).  "
    "Non-trivial = at least two makegateway calls under a schedule with real choices; distinct = distinct event-log digests."
)
ASSUMPTIONS = [
    "the spec-parsing clause has no schedule in it; it is evaluated on generated inputs inside each run and reported "
    "under rules named spec-* (input coverage, not simulation coverage)",
    "container snapshots are atomic with respect to the simulated scheduler (no sync point inside)",
]
COMPONENTS = {
    "real": ["multi.Group.makegateway / allocate_id / _register / _unregister / __getitem__ / __contains__ / __iter__ / "
             "__len__", "Gateway.exit", "xspec.XSpec", "gateway bootstrap over simulated popen"],
    "stub": ["kernel pipes/processes (vsim)"],
}

IDPOOL = ["gw0", "gw1", "gw2", "gw3", "a", "a", "b"]


def gen(rng, tier):
    nt = rng.choice([2, 2, 3])
    actors = [{"side": "i", "gw": 0, "chan": None, "ops": []}]
    main = actors[0]["ops"]
    workers = []
    for t in range(nt):
        ops = []
        mine = []
        for k in range(rng.randrange(1, 5)):
            r = rng.random()
            if r < 0.06:
                ops.append(["alloc_make", "popen", rng.randrange(0, 4)])
            elif r < 0.45:
                ops.append(["makegateway", "popen"])
            elif r < 0.75:
                gid = rng.choice(IDPOOL)
                ops.append(["makegateway", f"popen//id={gid}"])
                mine.append(gid)
            elif r < 0.87:
                # a call that fails after the id was allocated (unknown via gateway / no gateway type / interpreter
                # that cannot be started): the id must be free again afterwards
                gid = rng.choice(IDPOOL)
                form = rng.choice(["popen//id=%s//via=nosuch", "id=%s", "popen//id=%s//python=/sim/missing-python"])
                ops.append(["makegateway", form % gid])
                if rng.random() < 0.6:
                    ops.append(["makegateway", f"popen//id={gid}"])
            elif mine or True:
                ops.append(["gwexit_id", rng.choice(IDPOOL)] + (["twice"] if rng.random() < 0.3 else []))
            ops.append(["groupsnap"])
            if rng.random() < 0.3:
                ops.append(["yield", rng.randrange(1, 6)])
        actors.append({"side": "i", "gw": 0, "chan": None, "ops": ops})
        workers.append(len(actors) - 1)
    for aid in workers:
        main.append(["spawn", aid])
    for aid in workers:
        main.append(["join", aid, 600])
    main.append(["groupsnap"])
    main.append(["terminate", 2.0])
    main.append(["groupsnap"])
    specs = [gen_spec(rng) for _ in range(6)]
    return {"gateways": [], "actors": actors,
            "knobs": {"pipe_cap": 65536, "sock_cap": 65536, "chunk": "greedy"},
            "strategy": L.gen_strategy(rng), "preempt": [],
            "preempt_at": L.gen_preempt_at(rng, ["allocate_id", "_register", "makegateway", "_unregister", "exit",
                                                 "__contains__", "__getitem__"], maxn=25, p=0.6),
            "faults": [], "specs": specs}


# ---------------------------------------------------------------------------
# spec strings: generator + independent parser
# ---------------------------------------------------------------------------

KCH = ["a", "b", "k", ":", " ", "é", "e", "n", "v", "_", "/", "x"]
VCH = ["a", "1", "=", ":", " ", "é", "/", "x", ""]
KNOWN_KEYS = ["popen", "ssh", "socket", "python", "id", "chdir", "nice", "execmodel", "via", "installvia",
              "dont_write_bytecode", "ssh_config", "vagrant_ssh", "env"]


def gen_key(rng):
    r = rng.random()
    if r < 0.3:
        return rng.choice(KNOWN_KEYS)
    if r < 0.5:
        return "env:" + "".join(rng.choice(["A", "B", "é", ":", " "]) for _ in range(rng.randrange(1, 3)))
    while True:
        k = "".join(rng.choice(KCH) for _ in range(rng.randrange(1, 5)))
        if k and not k.startswith("_") and "//" not in k and "=" not in k and not k.endswith("/"):
            return k


def gen_val(rng):
    if rng.random() < 0.3:
        return None  # bare key
    while True:
        val = "".join(rng.choice(VCH) for _ in range(rng.randrange(0, 5)))
        if "//" not in val and not val.endswith("/") and not val.startswith("/"):
            return val


def gen_spec(rng):
    n = rng.randrange(1, 5)
    items = []
    for _ in range(n):
        items.append([gen_key(rng), gen_val(rng)])
    if rng.random() < 0.35 and items:
        # force a duplicate key (same or different value, possibly bare vs valued)
        k = rng.choice(items)[0]
        items.insert(rng.randrange(0, len(items) + 1), [k, gen_val(rng)])
    parts = [k if val is None else f"{k}={val}" for k, val in items]
    return {"items": items, "text": "//".join(parts)}


def ref_parse(text):
    """Independent reference: -> ("dup", key) | ("ok", attrs, env)."""
    attrs, env, seen = {}, {}, set()
    for part in text.split("//"):
        key, eq, val = part.partition("=")
        value = val if eq else True
        if key in seen:
            return ("dup", key)
        seen.add(key)
        if key.startswith("env:"):
            env[key[4:]] = value
        else:
            attrs[key] = value
    return ("ok", attrs, env)


def spec_checks(XSpec, x, text, exp):
    V = []
    _, attrs, env = exp
    for k, val in attrs.items():
        if k == "env":
            continue
        got = getattr(x, k, "<missing>")
        if got != val or type(got) is not type(val):
            V.append(v("spec-attribute-wrong", "attr", f"{text!r}: {k} -> {got!r}, expected {val!r}"))
    if dict(x.env) != env and "env" not in attrs:
        V.append(v("spec-env-wrong", "env", f"{text!r}: env {x.env!r}, expected {env!r}"))
    if getattr(x, "surely_absent_name") is not None:
        V.append(v("spec-absent-not-none", "attr", text))
    if str(x) != text:
        V.append(v("spec-str-differs", "str", f"{text!r} -> {str(x)!r}"))
    y = XSpec(text)
    if not (x == y) or (x != y) or hash(x) != hash(y) or x == XSpec(text + "//zz9"):
        V.append(v("spec-eq-hash", "eq", text))
    # ... and still does after use: Group.allocate_id / makegateway fill in id and execmodel on the object they were
    # given, callers attach settings (ssh_config) - the text, and with it equality and hash, stays what it was
    z = XSpec(text)
    if z.id is None:
        z.id = "gw7"
    if z.execmodel is None:
        z.execmodel = "thread"
    z.ssh_config = "/dev/null"
    if not (z == y) or (z != y) or hash(z) != hash(y) or not (y == z) or str(z) != text:
        V.append(v("spec-eq-hash", "eq-after-use", text))
    return V


def check_specs(specs):
    V = []
    n = 0
    XSpec = load_execnet()["xspec"].XSpec
    for sp in specs:
        text = sp["text"]
        exp = ref_parse(text)
        n += 1
        try:
            x = XSpec(text)
        except ValueError as e:
            if exp[0] != "dup":
                keys = [k for k, _ in sp["items"]]
                kk = "env" if "env" in keys else "other"
                V.append(v("spec-valid-rejected", f"key={kk}", f"{text!r}: ValueError {e}"))
            continue
        except Exception as e:  # noqa: BLE001
            V.append(v("spec-raised-other", type(e).__name__, f"{text!r}: {e!r}"))
            continue
        if exp[0] == "dup":
            kind = "env" if exp[1].startswith("env:") else "plain"
            V.append(v("spec-duplicate-accepted", kind, f"{text!r}: repeated key {exp[1]!r} accepted"))
            continue
        try:
            V += spec_checks(XSpec, x, text, exp)
        except Exception as e:  # noqa: BLE001 - raised by the code under test while its attributes are inspected
            V.append(v("spec-raised-other", f"{type(e).__name__};after-parse", f"{text!r}: {e!r}"))
    return V, n


def shrink_cases(case):
    if case.get("preempt_at"):
        c = dict(case)
        c["preempt_at"] = []
        yield c
    if case.get("specs"):
        for i in range(len(case["specs"])):
            c = dict(case)
            c["specs"] = case["specs"][:i] + case["specs"][i + 1:]
            yield c
    acts = case["actors"]
    for ai in range(1, len(acts)):
        ops = acts[ai]["ops"]
        for j in range(len(ops)):
            c = dict(case)
            c["actors"] = [dict(a) for a in acts]
            c["actors"][ai]["ops"] = ops[:j] + ops[j + 1:]
            yield c


def execute(case, chooser):
    res = gwsim.run_case(case, chooser, max_steps=200_000)
    gwsim.check_harness(res)
    hist = L.Hist(res)
    V, nmk = oracle(case, res, hist)
    V += gwsim.livelock_violation(res, "c20")
    SV, ns = check_specs(case["specs"])
    V += SV
    sample = None
    if chooser.rng is not None and chooser.rng.random() < 0.004:
        sample = {"actors": [[o for o in a["ops"]] for a in case["actors"]], "specs": [s_["text"] for s_ in case["specs"]],
                  "preempt_at": case["preempt_at"], "strategy": case["strategy"]}
    out = gwsim.summarize(res, chooser, nontrivial=nmk >= 2 and len(chooser.trace) > 0,
                          feats={("mk", min(nmk, 8))}, sample=sample, violations=V)
    out["stats"]["spec-strings-checked"] = ns
    return out


def failing_form(spec):
    if "via=nosuch" in spec:
        return ("KeyError",)
    if "python=/sim/missing" in spec:
        return ("OSError", "FileNotFoundError")
    if not spec.startswith("popen"):
        return ("ValueError",)
    return None


def oracle(case, res, hist):
    V = []
    for name, p in sorted(res.procs.items()):
        for tname, tb in p["crashes"]:
            V.append(v("thread-crash", name if name == "init" else "worker", tb[-300:]))
    for op, blabel, pname in res.blocked:
        V.append(v("blocked-forever", op[2], f"actor {op[0]} op {op[1]} at {blabel}"))
    for aid, oi, op, s1, s2, r in hist.ops(("gwexit_id",)):
        if r is not None and r[0] == "second-exit-raised":
            V.append(v("second-exit-raised", r[1], f"exit() of the no longer registered gateway {op[1]}: {r[1]}: {r[2]}"))
    auto_ids = []
    nmk = 0
    mk = []  # (inv, ret, wanted id or None, result id or None, exc name or None)
    forms = []  # per call: None, or the exception a deliberately failing spec has to end with
    explicit = [(s1, op[1].split("id=")[1].split("//")[0]) for aid, oi, op, s1, s2, r in hist.ops(("makegateway",))
                if "id=" in op[1]]
    for aid, oi, op, s1, s2, r in hist.ops(("alloc_make",)):
        # the id allocated for the spec object is used by the later makegateway(spec); the only thing that can
        # take it away meanwhile is an explicit request for the very same 'gwN'
        if r is None:
            continue
        if r[0] == "alloc-failed" and not any(w == r[1] and t1 < s2 for t1, w in explicit):
            V.append(v("allocated-id-not-usable", r[2], f"allocate_id(spec) gave {r[1]}, makegateway(spec) raised {r[2]}: {r[3]}"))
        elif r[0] == "gw" and r[1] != r[2]:
            V.append(v("allocated-id-not-used", "auto", f"allocated {r[2]}, gateway got {r[1]}"))
    for aid, oi, op, s1, s2, r in hist.ops(("makegateway", "alloc_make")):
        nmk += 1
        want = op[1].split("id=")[1].split("//")[0] if "id=" in op[1] else None
        got = r[1] if (r is not None and r[0] == "gw") else None
        mk.append((s1, s2 if s2 is not None else 10**12, want, got, r[1] if (r is not None and r[0] == "exc") else None))
        forms.append(failing_form(op[1]))
        if got is not None and want is None:
            auto_ids.append(got)

    def raced(i):
        """was call i concurrent with another makegateway call aiming at (or obtaining) the same id?"""
        s1, s2, want, got, exc = mk[i]
        mine = {want, got} - {None}
        for j, (t1, t2, w2, g2, e2) in enumerate(mk):
            if j == i or not (t1 < s2 and s1 < t2):
                continue
            theirs = {w2, g2} - {None}
            if mine & theirs:
                return True
            # a failed auto-id call: the id it had picked is not observable; an overlapping call with an explicit
            # id of the auto form ('gwN') is the only way to collide with it
            if not mine and any(x.startswith("gw") and x[2:].isdigit() for x in theirs):
                return True
        return False

    any_raced_failure = False
    for i, (s1, s2, want, got, exc) in enumerate(mk):
        if forms[i] is not None:
            # deliberately failing spec: refused for its id (ValueError) or failing in its own way, never a gateway
            if got is not None:
                V.append(v("failing-spec-produced-gateway", forms[i], f"id={want} -> {got}"))
            elif exc not in ("ValueError",) + forms[i]:
                V.append(v("makegateway-raised-other", f"{exc};failing-form", f"makegateway(id={want}) raised {exc}"))
            continue
        if exc == "ValueError" and want is not None:
            # a refusal needs a reason: the id was obtained by some gateway before this call returned, or another
            # makegateway call aiming at the same id was in flight
            ever = any(g2 == want and t2 < s2 for (t1, t2, w2, g2, e2) in mk)
            if not ever and not raced(i):
                V.append(v("id-refused-though-free", "explicit",
                           f"makegateway(id={want}) refused although no gateway ever held that id and no other call was in flight"))
        if exc == "ValueError" and want is None:
            # an automatic id can only be refused because an explicit id of the automatic form ('gwN') is in the way
            if not any(w2 and w2.startswith("gw") and w2[2:].isdigit() and t1 < s2 for (t1, t2, w2, g2, e2) in mk):
                V.append(v("auto-id-refused", "auto", "makegateway without id refused although no explicit id of the "
                                                      "form gwN was ever requested"))
        if exc is not None and exc != "ValueError":
            how = "concurrent-same-id" if raced(i) else "sequential"
            any_raced_failure = any_raced_failure or how == "concurrent-same-id"
            V.append(v("makegateway-raised-other", f"{exc};{how}", f"makegateway(id={want}) raised {exc}"))
    if len(set(auto_ids)) != len(auto_ids):
        V.append(v("auto-id-repeated", "auto", f"{auto_ids}"))
    for aid, oi, op, s1, s2, r in hist.ops(("groupsnap",)):
        if r is None or r[0] != "snap":
            continue
        _, ids, n, by_index, member, by_id, bogus = r[:7]
        for gid, said, is_member in (r[7] if len(r) > 7 else ()):
            V.append(v("object-membership-disagrees", "group",
                       f"gateway object with id {gid}: 'in'/lookup says {said}, identity in iteration says {is_member}"))
        if len(set(ids)) != len(ids):
            dup = [x for x in ids if ids.count(x) > 1][0]
            calls = [i for i, m in enumerate(mk) if m[3] == dup]
            how = "concurrent-same-id" if any(raced(i) for i in calls) else "sequential"
            V.append(v("id-collision", f"live;{how}", f"live members {ids}"))
        elif n != len(ids) or by_index != ids or not all(member) or by_id != ids or bogus:
            V.append(v("container-protocol-disagrees", "group",
                       f"iter {ids} len {n} by-index {by_index} contains {member} by-id {by_id} bogus-in {bogus}"))
    # after terminate: group empty and no process left (ties in with C05)
    last = [r for aid, oi, op, s1, s2, r in hist.ops(("groupsnap",)) if aid == 0 and r]
    if last and last[-1][0] == "snap" and last[-1][2] != 0:
        V.append(v("group-not-empty", "after-terminate", f"{last[-1][1]}"))
    term = [r for aid, oi, op, s1, s2, r in hist.ops(("terminate",))]
    if term and term[0] is not None and term[0][0] == "val":
        for name, p in sorted(res.procs.items()):
            if name != "init" and p["alive"]:
                how = "after-raced-makegateway-failure" if any_raced_failure else "after-terminate"
                V.append(v("process-left-behind", how, f"{name} alive after terminate"))
    return V, nmk
