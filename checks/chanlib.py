"""Shared pieces of the gateway-level checks: generators for knobs / strategies / transports / item
fillers, history indexing, wire-order extraction and the generic 'nothing crashed or hung' rules."""

from __future__ import annotations

from vsim import wire
from vsim.actors import canon, mkitem


def v(rule, key, detail):
    return {"rule": rule, "key": key, "detail": str(detail)[:600]}


# ---------------------------------------------------------------------------
# generation helpers
# ---------------------------------------------------------------------------


def gen_strategy(rng):
    st = rng.random()
    if st < 0.3:
        return {"kind": "uniform"}
    if st < 0.8:
        return {"kind": "sticky", "p": rng.choice([0.5, 0.8, 0.9, 0.97])}
    return {"kind": "pct", "changes": sorted(rng.sample(range(1, 600), rng.randrange(0, 4)))}


def gen_knobs(rng, small_ok=True):
    caps = [64, 4096, 65536] + ([7, 1] if small_ok else [])
    return {
        "pipe_cap": rng.choice(caps + [65536, 65536]),
        "sock_cap": rng.choice([64, 512, 4096, 65536, 65536]),
        "chunk": rng.choice(["greedy", "greedy", "random", "random", "one"]),
    }


def gen_preempt(rng, span=1500, maxb=3):
    b = rng.choice([0, 0, 0, 1, 2, maxb])
    return sorted(rng.sample(range(1, span), b))


def gen_preempt_at(rng, names, maxn=40, p=0.5, maxb=3):
    """Targeted preemption: at the n-th executed line of the named execnet functions."""
    if rng.random() > p:
        return []
    return [[rng.choice(names), rng.randrange(1, maxn)] for _ in range(rng.randrange(1, maxb + 1))]


TRANSPORTS = ["popen", "bare", "socket", "proxy"]


def gateways_for(transport, backend="thread", gid="g"):
    """-> (list of specs, index of the gateway under test)"""
    em = f"//execmodel={backend}" if backend else ""
    if transport == "popen":
        return [f"popen//id={gid}{em}"], 0
    if transport == "bare":
        return [f"popen//python=/sim/bare-python3 -S -E//id={gid}{em}"], 0
    if transport == "ssh":
        return [f"ssh=simhost//id={gid}{em}"], 0
    if transport == "socket":
        return ["popen//id=m", f"socket//installvia=m//id={gid}{em}"], 1
    if transport == "proxy":
        return ["popen//id=m", f"popen//via=m//id={gid}{em}"], 1
    if transport == "proxy-bare":
        return ["popen//python=/sim/bare-python3 -S -E//id=m", f"popen//via=m//id={gid}{em}"], 1
    if transport == "socket-bare":
        return ["popen//python=/sim/bare-python3 -S -E//id=m", f"socket//installvia=m//id={gid}{em}"], 1
    if transport in ("proxy-bare-mto", "socket-bare-mto"):
        # the installing / forwarding gateway itself runs main_thread_only on the interpreter without execnet
        m = "popen//python=/sim/bare-python3 -S -E//id=m//execmodel=main_thread_only"
        return [m, (f"popen//via=m//id={gid}{em}" if transport.startswith("proxy") else f"socket//installvia=m//id={gid}{em}")], 1
    if transport == "ssh-config":
        return [f"ssh=-p 2222 user@simhost//ssh_config=/sim/ssh_config//python=/opt/py/bin/python3//id={gid}{em}"], 0
    if transport == "vagrant":
        return [f"vagrant_ssh=default//id={gid}{em}"], 0
    if transport == "vagrant-config":
        return [f"vagrant_ssh=box1//ssh_config=/sim/ssh_config//python=/opt/py/bin/python3//id={gid}{em}"], 0
    raise ValueError(transport)


def gen_fill(rng, big=False, depth=0):
    r = rng.random()
    if r < 0.15:
        return ["none"]
    if r < 0.22:
        return ["bool", rng.randrange(2)]
    if r < 0.40:
        return ["int", rng.choice([0, 1, -1, 2**31 - 1, -(2**31), 2**31, 2**63, 10**30, rng.randrange(-1000, 1000)])]
    if r < 0.48:
        return ["float", rng.choice([0.0, -0.0, 1.5, 1e300, -2.25, 3.141592653589793])]
    if r < 0.65:
        n = rng.choice([0, 1, 5, 30, 300] + ([3000, 70000] if big else []))
        return ["str", n, rng.choice(["a", "u"])]
    if r < 0.80:
        n = rng.choice([0, 1, 9, 100, 700] + ([9000, 200000] if big else []))
        return ["bytes", n]
    if depth >= 2:
        return ["int", rng.randrange(100)]
    if r < 0.87:
        return ["list", [gen_fill(rng, False, depth + 1) for _ in range(rng.randrange(0, 4))]]
    if r < 0.93:
        return ["tuple", [gen_fill(rng, False, depth + 1) for _ in range(rng.randrange(0, 4))]]
    if r < 0.97:
        return ["dict", [[["int", i], gen_fill(rng, False, depth + 1)] for i in range(rng.randrange(0, 3))]]
    return [rng.choice(["set", "frozenset"]), sorted(rng.sample(range(50), rng.randrange(0, 4)))]


def expected_canon(token, fill):
    return canon(mkitem(token, fill))


# ---------------------------------------------------------------------------
# history helpers
# ---------------------------------------------------------------------------


class Hist:
    def __init__(self, res):
        self.H = res.H
        self.case = res.ctx.case
        self.inv = {}
        self.ret = {}
        self.sub = {}
        self.cb = {}
        self.done = {}
        self.notes = []
        for seq, aid, oi, ph, data in self.H:
            if ph == "inv":
                self.inv[(aid, oi)] = (seq, data)
            elif ph == "ret":
                self.ret[(aid, oi)] = (seq, data)
            elif ph == "sub":
                self.sub.setdefault((aid, oi), []).append((seq, data))
            elif ph == "cb":
                self.cb.setdefault((aid, oi), []).append((seq, data))
            elif ph == "done":
                self.done[aid] = seq
            elif ph == "note":
                self.notes.append((seq, data))

    def ops(self, kinds=None):
        """yield (aid, oi, op, inv_seq, ret_seq_or_None, result_or_None) in program order per actor"""
        for (aid, oi), (seq, op) in sorted(self.inv.items()):
            if kinds is not None and op[0] not in kinds:
                continue
            r = self.ret.get((aid, oi))
            yield aid, oi, op, seq, (r[0] if r else None), (r[1] if r else None)

    def chan_ids(self):
        """label -> channel id, from exec/newchan/recvchan results (first seen)."""
        out = {}
        for aid, oi, op, s1, s2, r in self.ops(("exec", "exec_src", "newchan", "recvchan")):
            if r and r[0] == "chan":
                label = op[1] if op[0] != "recvchan" else op[2]
                out.setdefault(label, r[1])
        return out


def target_pipes(res):
    """-> (to_worker Pipe, from_worker Pipe) of the connection under test (last one created)."""
    conns = sorted([n for n in res.pipes if n.startswith("conn")])
    if conns:
        c2s = [n for n in conns if n.endswith(".c2s")][-1]
        return res.pipes[c2s], res.pipes[c2s[:-4] + ".s2c"]
    ins = sorted([n for n in res.pipes if n.endswith(".in")], key=lambda n: int(n[2:n.index(".")]))
    if not ins:
        return None, None
    n = ins[-1]
    return res.pipes[n], res.pipes[n[:-3] + ".out"]


def wire_frames(pipe, direction):
    data = bytes(pipe.wire)
    start = wire.skip_bootstrap(data, direction)
    frames, end, bad = wire.parse_frames(data, start)
    return frames, end, bad, len(data)


def generic_rules(res, hist, allow_exc=(), allow_blocked=(), key=""):
    """Rules every gateway-level check shares: no receiver/other thread crashed, no actor op hung,
    no op raised an exception type outside `allow_exc` (set of (opkind, excname))."""
    V = []
    for name, p in sorted(res.procs.items()):
        for tname, tb in p["crashes"]:
            last = tb.strip().splitlines()[-1] if tb.strip() else ""
            site = ""
            for line in tb.splitlines():
                if "gateway_base.py" in line or "<string>" in line or "multi.py" in line or "gateway_io.py" in line:
                    site = line.strip().split(",")[-1].strip()
            V.append(v("thread-crash", f"{tname.split(':')[0]};{site};{last.split(':')[0]}", f"in {name}: {tb[-500:]}"))
        if p["info"].get("main_exc") and p["info"].get("io_ready"):
            # (a child that died before its bootstrap completed ran only the stub, not execnet)
            V.append(v("process-main-exception", f"{p['info']['main_exc'].split('(')[0]}", f"{name}: {p['info']['main_exc']}"))
    for op, blabel, pname in res.blocked:
        aid, oi, kind = op
        if (kind,) in allow_blocked or kind in allow_blocked:
            continue
        V.append(v("blocked-forever", f"{kind};{key}", f"actor {aid} op {oi} {kind} blocked at {blabel} in {pname}"))
    for aid, oi, op, s1, s2, r in hist.ops():
        if r is not None and r[0] == "exc":
            if (op[0], r[1]) in allow_exc or ("*", r[1]) in allow_exc or r[1] == "NoChannel":
                continue  # (NoChannel = harness cascade of an earlier, separately judged failure)
            if op[0] == "sleep" and r[1] == "KeyboardInterrupt" and hist.case["actors"][aid]["side"] == "w":
                # a worker body still asleep 5 s after the gateway was told to terminate is interrupted by design
                continue
            V.append(v("unexpected-exception", f"{op[0]};{r[1]}", f"actor {aid} op {oi} {op[:3]}: {r[1]}: {r[2][:300]}"))
    if res.setup_error is not None:
        V.append(v("setup-failed", res.setup_error[1], res.setup_error[2]))
    from vsim import gwsim as _g
    V += _g.livelock_violation(res, key)
    return V


def check_expectations(case, hist, key0):
    """Compare every op's recorded result with its scripted expectation."""
    V = []
    for aid_s, exps in case["expect"].items():
        aid = int(aid_s)
        ops = case["actors"][aid]["ops"]
        for oi, exp in enumerate(exps):
            if exp == "any":
                continue
            r = hist.ret.get((aid, oi))
            if r is None:
                continue  # blocked or never reached: generic rules / earlier failure
            rr = r[1]
            op = ops[oi]
            got = rr[1] if rr[0] == "exc" else rr[0]
            okay = True
            rule = "wrong-outcome"
            if exp == "ok":
                okay = rr[0] == "ok"
            elif exp == "chan":
                okay = rr[0] == "chan"
            elif exp == "item":
                okay = rr[0] == "item"
                rule = "earlier-item-missing"
            elif exp.startswith("tok:"):
                okay = rr[0] == "item" and rr[1] == exp[4:]
                rule = "sibling-disturbed"
            elif exp == "alive":
                # (bytes instead of str if the gateway was reconfigured with py3str_as_py2str=True)
                okay = rr[0] == "item" and "alive" in rr[2] and len(rr[2]) < 40
                rule = "gateway-not-alive"
            elif exp == "eof":
                okay = rr[0] == "exc" and rr[1] == "EOFError"
                rule = "not-eof-after-error"
            elif exp == "oserror":
                okay = rr[0] == "exc" and rr[1] == "OSError"
                rule = "failed-channel-not-closed"
            elif exp == "ok|oserror":
                okay = rr[0] == "ok" or (rr[0] == "exc" and rr[1] == "OSError")
            elif exp == "true":
                okay = rr == ("val", True)
                rule = "false-instead-of-true"
            elif exp == "status":
                okay = rr[0] == "status" and isinstance(rr[1], int) and isinstance(rr[2], int)
                rule = "remote-status-failed"
            elif exp == "false":
                okay = rr == ("val", False)
                rule = "true-instead-of-false"
            elif exp == "raised":
                okay = rr == ("raised",)
            elif exp == "mainthread":
                okay = rr[0] == "ident" and rr[2] is True
                rule = "not-main-thread"
            elif exp.startswith("remotetext:"):
                needle = exp[11:]
                okay = rr[0] == "exc" and rr[1] == "RemoteError" and needle in rr[2]
                rule = "remote-error-not-raised"
            elif exp.startswith("remote:"):
                needle = exp[7:]
                okay = (rr[0] == "exc" and rr[1] == "RemoteError" and needle in rr[2] and "Traceback" in rr[2]
                        and "boom" in rr[2])
                rule = "remote-error-not-raised"
                if rr[0] == "exc" and rr[1] == "RemoteError":
                    rule = "remote-error-text-incomplete"
            if not okay:
                side = case["actors"][aid]["side"]
                V.append(v(rule, f"{key0};{op[0]};{side};got={got}",
                           f"actor {aid}({side}) op {oi} {op[:3]} expected {exp}, got {str(rr)[:300]}"))
                break  # later outcomes of this actor depend on this one: judge the first deviation only
    return V


