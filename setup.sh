#!/bin/sh
# Offline setup: nothing to build or fetch.  Verify the interpreter, that execnet imports from
# /repo/src, and run a tiny determinism smoke test of the simulator.
cd "$(dirname "$0")" || exit 2
exec env PYTHONHASHSEED=0 PYTHONDONTWRITEBYTECODE=1 /venv/bin/python -B -m vsim.cli selftest-smoke
