#!/bin/sh
# tools/confirm_seed.sh <seed dir name, e.g. C09-1>  -- confirm a seeded change in a scratch worktree of /repo
S="$1"; D="/verif/seeded/$S"; WT="/tmp/cs_$S"
git -C /repo worktree remove --force "$WT" 2>/dev/null
git -C /repo worktree add -q "$WT" HEAD || exit 2
cp /repo/src/execnet/_version.py "$WT/src/execnet/_version.py" 2>/dev/null
cd "$WT" || exit 2
sed "s#/tmp/seed[0-9]*_[A-Z0-9]*#$WT#g" "$D/demo.py" > "$WT/demo.py"
PYTHONPATH="$WT/src" timeout 300 /venv/bin/python demo.py > "$WT/demo_without.log" 2>&1; RC_WITHOUT=$?
git apply "$D/patch.diff" || { echo "patch does not apply"; exit 2; }
PYTHONPATH="$WT/src" timeout 300 /venv/bin/python demo.py > "$WT/demo_with.log" 2>&1; RC_WITH=$?
PYTHONPATH="$WT/src" timeout 1500 /venv/bin/python -m pytest testing -q -p no:cacheprovider --deselect testing/test_gateway.py::TestPopenGateway::test_dont_write_bytecode > "$WT/tests.log" 2>&1
TESTS=$(grep -E "passed|failed" "$WT/tests.log" | tail -1)
FAILED=$(grep -E "^(FAILED|ERROR)" "$WT/tests.log" | cut -c1-120 | tr '\n' ';')
echo "$S demo_without_change_rc=$RC_WITHOUT demo_with_change_rc=$RC_WITH tests: $TESTS failed: $FAILED"
tail -3 "$WT/demo_with.log" | cut -c1-200
cd /verif
git -C /repo worktree remove --force "$WT"
