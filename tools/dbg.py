#!/venv/bin/python
"""debug: tools/dbg.py PROP start count [-v]  -> run cases in-process and print violations"""
import os, sys, json
sys.path.insert(0, os.path.dirname(os.path.dirname(os.path.abspath(__file__))))
os.environ.setdefault("PYTHONHASHSEED", "0")
from vsim import runner
from vsim.cli import load_check
pid, start, count = sys.argv[1], int(sys.argv[2]), int(sys.argv[3])
verbose = "-v" in sys.argv
check = load_check(pid)
seed = int(os.environ.get("VERIF_SEED", "0"))
seen = {}
for idx in range(start, start + count):
    try:
        r = runner.one_run(check, seed, idx, os.environ.get("VERIF_TIER", "quick"), keep_trace=True)
    except Exception as e:
        import traceback; traceback.print_exc()
        print("idx", idx, "HARNESS", repr(e)); continue
    for v in r["violations"]:
        c = runner.vclass(v)
        if c not in seen or verbose:
            print(f"idx={idx} {c}: {v['detail']}")
        seen.setdefault(c, []).append(idx)
sys.unraisablehook = lambda *a: None
print("SUMMARY", {c: (len(v), v[:5]) for c, v in seen.items()})
