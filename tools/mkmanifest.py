#!/usr/bin/env python3
"""Regenerate /verif/MANIFEST.json from the table below (keeps the manifest valid at all times)."""

import json
import os

VERIF = os.path.dirname(os.path.dirname(os.path.abspath(__file__)))

TECH = "deterministic simulation with fault injection: seeded schedule/fault search over the real code on a simulated OS (vsim)"

# id -> (built?, category, level text, level_note, design_ref, technique detail)
GW_NOTE = ("Trusted: the simulated OS (vsim: pipes with BufferedWriter semantics, sockets with partial sends, process table, "
           "signals, discrete-event clock) and the bootstrap stub (init_popen_io/get_execmodel substituted); schedules, faults "
           "and programs are sampled, not enumerated; only public API results and bytes on the simulated wire are judged.")


def gw(text, ref, tech_detail, note_extra=""):
    return (True, "exploration", text, GW_NOTE + (" " + note_extra if note_extra else ""), ref, TECH + "; " + tech_detail)


CHECKS = {
    "C02": gw("Seeded schedule search over generated multi-channel, multi-sender/receiver programs on popen/bare/socket/proxied "
              "gateways; delivered order (queue-pop / callback order) compared with the wire order decoded by an independent "
              "frame parser: exactly once, in order, right channel, nothing lost at EOF, timed receives lose nothing (also when the "
              "deadline coincides with the close); strict request/response traffic with frames larger than the pipe on thread, "
              "main_thread_only and gevent workers.",
              "DESIGN.md 3/C02", "history oracle vs. ground-truth wire log"),
    "C03": gw("Seeded schedule search over close histories (explicit close / end of body / reference drop) with in-flight data, "
              "1-3 blocked receivers, waitclose callers and endmarker callbacks on the peer and on the closing side; probes after "
              "each observation; waitclose(timeout) on a still open channel; concurrent large frames on a sibling channel.",
              "DESIGN.md 3/C03", "history oracle with scripted post-observation probes"),
    "C04": (True, "fault_enumeration",
            "Crash-point enumeration: for a fixed generated family of 10 small workloads x {popen, socket} x {worker dies, "
            "initiator dies}, the thorough tier cuts the peer->survivor byte stream at EVERY offset n in [0, L] (SIGKILL of "
            "the writer at that byte) once and then samples further schedules; the quick tier samples (workload, n, schedule). "
            "Plus SIGKILL at generated sync points and death of a proxied sub / forwarder. Oracle: survivor gets exactly the "
            "complete frames (independent parser), then EOFError / endmarker, nothing hangs, gateway refuses work once stopped.",
            GW_NOTE + " Enumeration is over cut offsets of this workload family (one schedule per offset in the exhaustive "
            "phase), not over schedules.", "DESIGN.md 3/C04",
            TECH + "; byte-exact cut + SIGKILL enumeration, independent wire parser"),
    "C05": gw("Seeded search over topologies (popen / via / socket), worker programs (idle, blocked, busy, sleeping, "
              "interrupt-swallowing (also ignoring SIGTERM), extra threads, interpreters that outlive their closed connection), injected SIGSTOP/SIGKILL/SIGINT, members exited "
              "beforehand, a blocked sender, timeouts {0.1,1,5} and failing makegateway calls (id taken or raced, unknown via, "
              "missing interpreter, unreachable host, death in bootstrap, failing chdir/nice step); oracle: terminate returns "
              "without raising within 2*T+1 (local members) resp. 2*T*(N+P)+1 simulated seconds, group empty, every local "
              "child exited when it returns, failed makegateway leaves no process.",
              "DESIGN.md 3/C05", "process/signal fault injection, bounded-liveness oracle in simulated time",
              "Two terminate-blocked scenarios are listed known findings."),
    "C06": gw("Seeded schedule search over generated remote programs in all three forms (string, function + kwargs, module file) "
              "with sends, receives, a refused close() and a raise at a generated statement, several signature shapes, leading "
              "blank lines, optional gateway-level string reconfiguration: namespace, type-exact kwargs, items, "
              "close exactly at the end of the body, RemoteError naming the original file and line; and invalid function "
              "shapes rejected with ValueError/TypeError while the wire log stays byte-identical.",
              "DESIGN.md 3/C06", "generated-source programs; history oracle; wire-length invariant for local rejection",
              "The stdio clause (nothing printed remotely enters the protocol stream) depends on real fd redirection, which is "
              "the stubbed part: NOT decided."),
    "C07": gw("Seeded schedule search over failure positions of raising bodies / raising callbacks (channel alive or dropped) "
              "with sibling traffic and a liveness probe; failing exception varies (Exception / BaseException subclass, "
              "non-ASCII and unencodable messages, failing str()); error fetched before or after the connection ended; "
              "scripted expected outcomes per op.",
              "DESIGN.md 3/C07", "scripted-expectation oracle",
              "The dropped-channel sub-case is a listed known finding."),
    "C08": gw("(a) real Message.to_io/from_io + BaseGateway._send over real Popen2IO/SocketIO on simulated pipes/sockets with "
              "1-4 concurrent writers, every message code, full channel-id range, payloads to MiBs, all read chunkings; "
              "(b) end-to-end multi-sender channel programs on every transport.",
              "DESIGN.md 3/C08", "IO-class harness + end-to-end, independent stream parser"),
    "C09": (
        True, "exploration",
        "Seeded search over interleavings (sync points + <=3 line preemptions, uniform/sticky/PCT schedules) of "
        "generated spawner/waiter/shutdown programs against the real WorkerPool/Reply; history oracle for exactly-once, "
        "truthful replies, waitall truth/no lost wake-up, refused spawns, primary thread leaving. Sampling, not proof.",
        "Trusted: vsim primitives model threading.Event/RLock/Queue faithfully; schedules are sampled; the pool is driven "
        "through its public methods only. main_thread_only+primary pools are driven with the gated submission protocol the "
        "property names.",
        "DESIGN.md 3/C09",
        TECH + "; pool-only harness, history oracle",
    ),
    "C10": gw("Seeded schedule search over setcallback placements (before/between/after in-flight items and the peer's close), "
              "endings by end-of-body / raise / sub-channel close or drop / SIGKILL (also of a proxied sub), dropped or locally closed "
              "receivers, a local close racing the peer's end, callbacks closing their channel, a dropped callback channel whose id comes back as a new object, endmarker values incl. None and falsy ones, receive() probes and MultiChannel receive queues; "
              "callback sequence compared with the wire order from the hand-over point, endmarker exactly once.",
              "DESIGN.md 3/C10", "history oracle vs. ground-truth wire log; kill faults"),
    "C11": gw("Seeded search over the moment and manner of losing the initiator (SIGKILL at a sync point, byte-exact cut inside "
              "a frame, normal exit, write side closed only, death of a via master) x worker programs (incl. a callback left on a "
              "dropped channel - also one that raises on the endmarker -, earlier bodies run to completion and refused remote_execs on a busy main_thread_only worker) x backends x topologies; "
              "the real 5 s / SIGINT / 10 s / os._exit ladder runs in simulated time; oracle: every worker has exited within "
              "16 simulated seconds per hop.",
              "DESIGN.md 3/C11", "crash injection, bounded-liveness oracle in simulated time"),
    "C13": (True, "fault_enumeration",
            "Storage-fault enumeration on the reader seam: for generated values, the dump is read back after an early EOF at "
            "EVERY offset, every single-byte substitution (dumps <= 24 bytes, sampled above), sampled deletions / insertions / "
            "duplicated and zeroed ranges / bit flips / length-field bombs and 2-3 fault combinations, through loads() and "
            "load(stream); oracle: value of supported types only, or DataFormatError/EOFError; no strict prefix loads; no "
            "side effect (audit hook); every load bounded by an interval timer (termination).",
            "No scheduler is involved (the fault sequence is the input): this is the weakest fit to the technique and is "
            "claimed only as enumeration of torn-write / flipped-stored-byte faults. Runs under RLIMIT_AS; the allocation by a "
            "damaged length field is a listed known finding.", "DESIGN.md 3/C13",
            "fault enumeration on stored bytes (torn write at every offset, byte substitution), typed-error oracle + audit hook"),
    "C14": gw("Seeded schedule search over histories of 1-5 remote_exec outcomes (return, also leaving a callback on its channel / "
              "raise incl. EOFError and BaseException subclasses / receive ended by the initiator / SystemExit / SIGINT / blocked) with "
              "sequential and overlapping submission on main_thread_only workers: main-thread identity, one at a time, "
              "submission order, documented deadlock error for overlaps only.",
              "DESIGN.md 3/C14", "scripted-expectation oracle + body-span checks"),
    "C15": gw("C16's deterministic channel scripts run on an import-bootstrapped worker (reference) and on nine source-only "
              "bootstrap paths (python=, ssh, ssh+config, vagrant_ssh, vagrant_ssh+config, via a bare master, socket server on a "
              "bare master, both also with a main_thread_only master; one run in seven with EXECNET_DEBUG=1) whose workers "
              "execute the shipped bytes in a fresh __main__ under an import guard that refuses execnet and non-stdlib modules; "
              "transcripts identical, bootstrap kind and argv shape of every child checked.",
              "DESIGN.md 3/C15", "differential transcripts bare vs import bootstrap; import guard on executed paths",
              "Emulation limits: no real interpreter / -S -E / ssh; only executed paths are judged (a static 'no reference on "
              "any path' reading is not decided)."),
    "C16": gw("The same generated schedule-independent two-party channel program (items to 200 KB both ways, sub-channels bare and "
              "nested, callback bursts, closes, makefile reads, two concurrent writers of large frames, final return / raise / "
              "gateway.exit() with items still to deliver) is run on popen, bare popen, socket and "
              "proxied gateways under independent seeded schedules; transcripts must be identical and match the scripted "
              "reference outcomes (incl. the execmodel the worker reports). Control family: ProxyIO kill/close_write/wait and "
              "Group.terminate of a stopped sub must reach the proxied process.",
              "DESIGN.md 3/C16", "differential transcripts across transports + scripted reference model"),
    "C17": gw("Real RSync + real rsync_remote over 1-3 simulated workers on a REAL scratch file system: generated trees, prior "
              "target states, delete flag, cwd, targets named by relative paths (per-process working directories), names with leading dots, modify-then-resync steps, seeded listdir order and schedules of the multiplexed "
              "callbacks; oracle: content/mode/mtime/kind equality, lexical symlink expectation, delete/no-delete rules, "
              "idempotent re-sync (no content transferred, nothing changed).",
              "DESIGN.md 3/C17", "schedule search over target interleavings; tree-equality oracle on a real scratch FS",
              "Weakest fit: the file system is real (no disk faults); only the multiplexing of targets is schedule dependent."),
    "C18": gw("Seeded schedule search with line preemption aimed at the id allocator over concurrent channel creation on both "
              "sides (ids pairwise distinct), and long lockstep histories (10-400, thorough up to 3000 cycles) of open -> "
              "transfer (bare/nested) -> use -> close/drop(+gc) conversations (items arrive on the originator's channel, "
              "numchannels / 'active channels' do not grow).",
              "DESIGN.md 3/C18", "targeted line preemption; long-history conservation oracle"),
    "C19": gw("Seeded schedule search over item splits (empty items included) x read(n)/readline() sequences issued while items are "
              "still arriving, on either side and every transport, stepped in lock-step against io.StringIO/io.BytesIO; writer "
              "side: one item per write, flush, proxyclose on/off, write after close.",
              "DESIGN.md 3/C19", "reference-model (StringIO/BytesIO) lock-step oracle under arrival-timing schedules"),
    "C20": gw("Seeded schedule search (targeted preemption in allocate_id/_register/makegateway) over 2-3 tasks concurrently "
              "creating gateways with auto and colliding explicit ids (also deliberately failing specs followed by a retry, and "
              "allocate_id(spec) then makegateway(spec)) and exiting them once or twice; container-protocol snapshots after "
              "every step (ids pairwise distinct, lookup by id/index/membership agree - also for every gateway object ever "
              "created -, auto ids never repeat, a refusal needs a holder or a call in flight, nothing left "
              "behind); the spec-parsing clause is checked on generated strings against an independent parser.",
              "DESIGN.md 3/C20", "concurrent-creation schedules + reference container model; input part reported separately",
              "The spec-parsing clause has no schedule in it (input coverage only); the literal key 'env' is a listed known finding."),
}

NA = {
    "C01": "pure function of its input (serializer round-trip): no schedule, clock, fault or second party for a simulator "
           "to control; its channel-facing clause is exercised as a side condition of C02/C08 workloads only",
    "C12": "byte-format comparison of a pure encoder against a reference over inputs/interpreter versions: nothing for a "
           "scheduler or fault injector to decide",
}

ALL = [f"C{n:02d}" for n in range(1, 21)]


def main():
    checks = []
    for pid in ALL:
        ent = CHECKS.get(pid)
        if not ent or not ent[0]:
            continue
        _, cat, text, note, ref, tech = ent
        checks.append({
            "property_id": pid,
            "quick_cmd": f"timeout 900 ./check {pid} --tier quick",
            "thorough_cmd": f"timeout 7200 ./check {pid} --tier thorough",
            "evidence_file": f"/verif/evidence/{pid}.json",
            "replay_cmd_template": "./check replay {path}",
            "engine": "vsim",
            "level_claimed": {"category": cat, "text": text, "design_ref": ref},
            "level_note": note,
            "technique": tech,
        })
    na = []
    for pid in ALL:
        if pid in NA:
            na.append({"property_id": pid, "reason": NA[pid]})
        elif pid not in CHECKS or not CHECKS[pid][0]:
            na.append({"property_id": pid, "reason": "not claimed yet: check under construction in this work session "
                                                     "(see DESIGN.md section 3 for the plan)"})
    doc = {
        "version": 1,
        "setup_cmd": "timeout 600 ./setup.sh",
        "hooks": {
            "guard": "EXECNET_VERIF_SIM",
            "enable": "no hook is needed: the simulator plugs into execnet's own ExecModel seam and rebinds module globals "
                      "from outside (multi.Lock, rsync.Queue, os.kill/_exit/getpid/chdir/listdir, _thread.interrupt_main); checks import execnet from /repo/src",
            "baseline_off_cmd": "cd /repo && /venv/bin/python -m pytest -ra -q -p no:cacheprovider --timeout=900 "
                                "--continue-on-collection-errors",
            "source_commits": [],
            "add_only": True,
        },
        "engines": [{
            "name": "vsim",
            "path": "/verif/vsim",
            "serves_properties": [c["property_id"] for c in checks],
            "kind_free_text": "deterministic simulator: baton-passing real threads under a seeded scheduler, discrete-event "
                              "clock, simulated pipes/sockets/processes/signals, fault injection, ddmin shrinker, replay files",
        }],
        "checks": checks,
        "notes": "All checks import execnet from /repo/src (VERIF_EXECNET_SRC) - the pinned pytest command imports the "
                 "installed wheel instead, see DESIGN.md section 0. Exit 2 + HARNESS-ERROR = trouble in the machinery "
                 "(never reported as success or as a violation).",
        "not_applicable": na,
    }
    with open(os.path.join(VERIF, "MANIFEST.json"), "w") as f:
        json.dump(doc, f, indent=1)
        f.write("\n")


if __name__ == "__main__":
    main()
