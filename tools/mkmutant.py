#!/usr/bin/env python3
"""tools/mkmutant.py <name> <relative file under /repo> <<< JSON [[old,new],...]   -> mutants/<name>.patch"""
import difflib, json, os, sys
name, rel = sys.argv[1], sys.argv[2]
pairs = json.load(sys.stdin)
src = open(os.path.join("/repo", rel)).read()
new = src
for old, rep in pairs:
    assert new.count(old) >= 1, f"pattern not found: {old!r}"
    new = new.replace(old, rep, 1)
diff = difflib.unified_diff(src.splitlines(True), new.splitlines(True), "a/" + rel, "b/" + rel)
out = os.path.join(os.path.dirname(os.path.dirname(os.path.abspath(__file__))), "mutants", name + ".patch")
open(out, "w").write("".join(diff))
print(out)
