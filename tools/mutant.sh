#!/bin/sh
# tools/mutant.sh <patch-file> <check id> [budget_s]  -- apply a patch to a scratch copy of /repo/src and run a check on it
set -e
PATCH="$(realpath "$1")"; CHECK="$2"; BUDGET="${3:-20}"
D="/dev/shm/vsim-mutant-$$"
rm -rf "$D"; mkdir -p "$D"
cp -r /repo/src "$D/src"
find "$D" -name __pycache__ -type d -exec rm -rf {} + 2>/dev/null || true
( cd "$D" && patch -p1 -s < "$PATCH" )
cd /verif
set +e
VERIF_EXECNET_SRC="$D/src" VERIF_BUDGET_S="$BUDGET" VERIF_NO_EVIDENCE=1 ./check "$CHECK" > "$D/out.txt" 2>&1
RC=$?
grep -E "VIOLATION|class=|KNOWN|HARNESS|tier=" "$D/out.txt" | cut -c1-300 | head -12
rm -rf "$D"
rm -f /verif/replays/*.json
exit $RC
