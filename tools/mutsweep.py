#!/venv/bin/python
"""tools/mutsweep.py [--list] [--only SUBSTR] [--par N] [--budget S] [--out FILE]

Systematic first-order mutants of the anchored functions of the tree under test (statement deletion, negated
conditions, comparison and constant swaps), each applied to a scratch copy of /repo/src under /dev/shm and run
against the checks that claim the mutated code.  Output: one line per mutant, CAUGHT <check> <class> or SURVIVED.
Survivors are candidates for blind spots (or equivalent mutants) - they are triaged by hand, see DESIGN.md section 6.
Nothing in /repo is touched.
"""
import ast, os, sys, subprocess, shutil, json, time, argparse
from concurrent.futures import ThreadPoolExecutor

SRC = "/repo/src/execnet"
VERIF = os.path.dirname(os.path.dirname(os.path.abspath(__file__)))

# (file, qualified-name prefix) -> checks, most likely catcher first
TARGETS = [
    ("gateway_base.py", "Channel.", ["C03", "C02", "C10", "C07", "C18", "C04", "C06"]),
    ("gateway_base.py", "ChannelFactory.", ["C02", "C03", "C10", "C18", "C04", "C07"]),
    ("gateway_base.py", "Message.", ["C08", "C02", "C04", "C06"]),
    ("gateway_base.py", "Popen2IO.", ["C08", "C04", "C11"]),
    ("gateway_base.py", "WorkerPool.", ["C09", "C14"]),
    ("gateway_base.py", "Reply.", ["C09"]),
    ("gateway_base.py", "WorkerGateway.", ["C06", "C14", "C11", "C07", "C05"]),
    ("gateway_base.py", "BaseGateway.", ["C04", "C11", "C02", "C05"]),
    ("gateway_base.py", "ChannelFile", ["C19"]),
    ("gateway_base.py", "Unserializer.", ["C13", "C02", "C18"]),
    ("gateway_base.py", "_Serializer.", ["C02", "C13", "C18", "C06"]),
    ("gateway_base.py", "RemoteError.", ["C07"]),
    ("gateway_base.py", "serve", ["C11", "C15"]),
    ("gateway.py", "Gateway.", ["C06", "C05", "C16", "C04"]),
    ("gateway.py", "_source_of_function", ["C06"]),
    ("gateway.py", "_find_non_builtin_globals", ["C06"]),
    ("multi.py", "Group.", ["C20", "C05"]),
    ("multi.py", "MultiChannel.", ["C10"]),
    ("multi.py", "safe_terminate", ["C05"]),
    ("gateway_io.py", "", ["C16", "C05", "C15", "C04"]),
    ("gateway_socket.py", "SocketIO.", ["C08", "C16", "C04"]),
    ("gateway_bootstrap.py", "", ["C15", "C16", "C05"]),
    ("rsync.py", "", ["C17"]),
    ("rsync_remote.py", "", ["C17"]),
    ("xspec.py", "", ["C20"]),
]
SKIP_CALLS = ("_trace", "trace", "log", "warn", "print")


def qualnames(tree):
    out = []

    def walk(node, prefix):
        for ch in ast.iter_child_nodes(node):
            if isinstance(ch, (ast.FunctionDef, ast.AsyncFunctionDef)):
                out.append((prefix + ch.name, ch))
                walk(ch, prefix + ch.name + ".")
            elif isinstance(ch, ast.ClassDef):
                walk(ch, prefix + ch.name + ".")
            elif isinstance(ch, (ast.If, ast.Try, ast.With)) and prefix == "":
                walk(ch, prefix)
    walk(tree, "")
    return out


def seg(src_lines, node):
    if node.lineno == node.end_lineno:
        return src_lines[node.lineno - 1][node.col_offset:node.end_col_offset]
    parts = [src_lines[node.lineno - 1][node.col_offset:]]
    parts += src_lines[node.lineno:node.end_lineno - 1]
    parts.append(src_lines[node.end_lineno - 1][:node.end_col_offset])
    return "\n".join(parts)


def replace(src_lines, node, text):
    lines = list(src_lines)
    first = lines[node.lineno - 1][:node.col_offset] + text + lines[node.end_lineno - 1][node.end_col_offset:]
    lines[node.lineno - 1:node.end_lineno] = [first]
    return "\n".join(lines) + "\n"


def is_noise(stmt):
    if isinstance(stmt, ast.Expr):
        v = stmt.value
        if isinstance(v, ast.Constant):
            return True  # docstring
        if isinstance(v, ast.Call):
            f = v.func
            name = f.attr if isinstance(f, ast.Attribute) else getattr(f, "id", "")
            if name in SKIP_CALLS:
                return True
    return False


CMP_SWAP = {ast.Lt: ast.LtE, ast.LtE: ast.Lt, ast.Gt: ast.GtE, ast.GtE: ast.Gt, ast.Eq: ast.NotEq, ast.NotEq: ast.Eq,
            ast.Is: ast.IsNot, ast.IsNot: ast.Is, ast.In: ast.NotIn, ast.NotIn: ast.In}


def mutants_of(fname, prefix):
    path = os.path.join(SRC, fname)
    text = open(path).read()
    lines = text.split("\n")
    if lines and lines[-1] == "":
        lines = lines[:-1]
    tree = ast.parse(text)
    out = []
    for qn, fn in qualnames(tree):
        if not qn.startswith(prefix):
            continue
        tests = {id(n.test) for n in ast.walk(fn) if isinstance(n, (ast.If, ast.While))}
        for node in ast.walk(fn):
            if node is not fn and isinstance(node, (ast.FunctionDef, ast.AsyncFunctionDef, ast.ClassDef)):
                continue
            # statement deletion
            if isinstance(node, (ast.Expr, ast.Assign, ast.AugAssign, ast.Raise, ast.Break, ast.Continue, ast.Delete)) and not is_noise(node):
                if isinstance(node, ast.Raise) and node.exc is None:
                    pass
                out.append((qn, node.lineno, "del-stmt", replace(lines, node, "pass"), seg(lines, node)[:70]))
            if isinstance(node, ast.Return) and node.value is not None:
                out.append((qn, node.lineno, "return-none", replace(lines, node, "return None"), seg(lines, node)[:70]))
            if isinstance(node, (ast.If, ast.While)) and not (isinstance(node.test, ast.Constant)):
                t = node.test
                out.append((qn, node.lineno, "negate-cond", replace(lines, t, "(not (" + seg(lines, t) + "))"), seg(lines, t)[:70]))
                out.append((qn, node.lineno, "cond-true", replace(lines, t, "True") if isinstance(node, ast.If) else None, seg(lines, t)[:70]))
                out.append((qn, node.lineno, "cond-false", replace(lines, t, "False"), seg(lines, t)[:70]))
            if (isinstance(node, ast.Compare) and len(node.ops) == 1 and type(node.ops[0]) in CMP_SWAP
                    and not (id(node) in tests and type(node.ops[0]) not in (ast.Lt, ast.LtE, ast.Gt, ast.GtE))):
                new = ast.Compare(left=node.left, ops=[CMP_SWAP[type(node.ops[0])]()], comparators=node.comparators)
                out.append((qn, node.lineno, "cmp-swap", replace(lines, node, "(" + ast.unparse(new) + ")"), seg(lines, node)[:70]))
            if isinstance(node, ast.Constant) and isinstance(node.value, bool):
                out.append((qn, node.lineno, "bool-flip", replace(lines, node, str(not node.value)), seg(lines, node)[:70]))
            elif isinstance(node, ast.Constant) and isinstance(node.value, int) and not isinstance(node.value, bool) and node.value in (0, 1, 2):
                out.append((qn, node.lineno, "int-bump", replace(lines, node, str(node.value + 1)), seg(lines, node)[:70]))
            if isinstance(node, ast.BoolOp) and len(node.values) == 2:
                for i in (0, 1):
                    out.append((qn, node.lineno, f"boolop-drop{i}", replace(lines, node, "(" + seg(lines, node.values[1 - i]) + ")"), seg(lines, node)[:70]))
            if isinstance(node, ast.Try):
                for h in node.handlers:
                    if h.body and not (len(h.body) == 1 and isinstance(h.body[0], ast.Pass)):
                        pass
            if isinstance(node, ast.With) and len(node.items) == 1:
                # drop the context manager (lock) but keep the body: "with x:" -> "if True:"
                it = node.items[0]
                hdr_end = node.body[0]
                # only single-line headers
                if node.lineno == it.context_expr.end_lineno:
                    l = lines[node.lineno - 1]
                    if l.strip().startswith("with ") and l.rstrip().endswith(":") and it.optional_vars is None:
                        nl = list(lines)
                        nl[node.lineno - 1] = l[:len(l) - len(l.lstrip())] + "if True:"
                        out.append((qn, node.lineno, "drop-with", "\n".join(nl) + "\n", l.strip()[:70]))
    return [m for m in out if m[3] is not None]


def run_mutant(i, fname, qn, lineno, kind, newtext, snippet, checks, budget, jobs):
    d = f"/dev/shm/mutsweep-{os.getpid()}-{i}"
    shutil.rmtree(d, ignore_errors=True)
    shutil.copytree("/repo/src", d + "/src", ignore=shutil.ignore_patterns("__pycache__"))
    tgt = os.path.join(d, "src", "execnet", fname)
    open(tgt, "w").write(newtext)
    try:
        compile(newtext, tgt, "exec")
    except SyntaxError as e:
        shutil.rmtree(d, ignore_errors=True)
        return ("INVALID", "", str(e)[:60])
    res = ("SURVIVED", "", "")
    env = dict(os.environ, VERIF_EXECNET_SRC=d + "/src", VERIF_BUDGET_S=str(budget), VERIF_NO_EVIDENCE="1",
               VERIF_JOBS=str(jobs), VERIF_SHRINK_S="3", VERIF_SEED="1")
    notes = []
    for c in checks:
        try:
            p = subprocess.run(["timeout", "600", os.path.join(VERIF, "check"), c, "--tier", "quick"], env=env,
                               capture_output=True, text=True, cwd=VERIF)
            out = p.stdout
            rc = p.returncode
        except Exception as e:  # noqa: BLE001
            out, rc = repr(e), 99
        if "VIOLATION" in out:
            cls = [l for l in out.split("\n") if "class=" in l and not l.startswith("KNOWN")]
            cls = cls[0].split("class=")[1].split(" ")[0] if cls else "?"
            res = ("CAUGHT", c, cls)
            break
        if rc != 0:
            h = [l for l in out.split("\n") if l.startswith("HARNESS-ERROR")]
            notes.append(f"{c}:rc={rc}:{(h[0][:80] if h else '')}")
    shutil.rmtree(d, ignore_errors=True)
    if res[0] == "SURVIVED" and notes:
        res = ("HARNESS", "", ";".join(notes)[:200])
    return res


def main():
    ap = argparse.ArgumentParser()
    ap.add_argument("--list", action="store_true")
    ap.add_argument("--only", default="")
    ap.add_argument("--par", type=int, default=4)
    ap.add_argument("--budget", type=float, default=10)
    ap.add_argument("--jobs", type=int, default=4)
    ap.add_argument("--out", default="/dev/stdout")
    ap.add_argument("--stride", type=int, default=1)
    ap.add_argument("--offset", type=int, default=0)
    ap.add_argument("--checks", default="", help="comma separated: override the checks to run")
    ap.add_argument("--at", default="", help="comma separated file:line:kind selectors")
    a = ap.parse_args()
    work = []
    seen = set()
    for fname, prefix, checks in TARGETS:
        for qn, lineno, kind, newtext, snippet in mutants_of(fname, prefix):
            key = (fname, lineno, kind, snippet, hash(newtext))
            if key in seen:
                continue
            seen.add(key)
            if a.only and a.only not in f"{fname}:{qn}:{kind}":
                continue
            if a.at and not any(f"{fname}:{lineno}:{kind}".startswith(x) for x in a.at.split(",")):
                continue
            if a.checks:
                checks = a.checks.split(",")
            work.append((fname, qn, lineno, kind, newtext, snippet, checks))
    work = work[a.offset::a.stride]
    if a.list:
        for w in work:
            print(w[0], w[1], w[2], w[3], repr(w[5]))
        print(len(work), "mutants")
        return
    out = open(a.out, "a")
    t0 = time.time()

    def job(iw):
        i, w = iw
        r = run_mutant(i, w[0], w[1], w[2], w[3], w[4], w[5], w[6], a.budget, a.jobs)
        line = f"{r[0]:8s} {w[0]}:{w[2]} {w[1]} {w[3]} {w[5]!r} -> {r[1]} {r[2]}"
        out.write(line + "\n")
        out.flush()
        return r[0]

    with ThreadPoolExecutor(a.par) as ex:
        rs = list(ex.map(job, enumerate(work)))
    from collections import Counter
    out.write(f"# done {dict(Counter(rs))} in {time.time() - t0:.0f}s\n")
    subprocess.run("rm -f %s/replays/*.json" % VERIF, shell=True)


if __name__ == "__main__":
    main()
