#!/bin/sh
# tools/regen_findings.sh [budget] -- re-create findings/*.replay.json with the current harness: every revert-of-fix
# mutant is applied to a scratch copy of /repo/src, its check is run there, and the first minimised replay is kept
# (named after the fix commit).  Each replay is then replayed against /repo/src itself and must NOT reproduce.
B="${1:-20}"
cd "$(dirname "$0")/.." || exit 2
mkdir -p findings/regen
for p in mutants/c*_revert_fix_*.patch mutants/c20_revert_all_id_fixes.patch; do
  n=$(basename "$p" .patch); c=$(echo "$n" | cut -c1-3 | tr 'c' 'C')
  D="/dev/shm/vsim-regen-$$"; rm -rf "$D"; mkdir -p "$D"; cp -r /repo/src "$D/src"
  ( cd "$D" && patch -p1 -s < "/verif/$p" ) || { echo "SKIP $n (patch does not apply)"; rm -rf "$D"; continue; }
  rm -f replays/*.json
  VERIF_EXECNET_SRC="$D/src" VERIF_BUDGET_S="$B" VERIF_NO_EVIDENCE=1 timeout 900 ./check "$c" > "$D/out.txt" 2>&1
  R=$(grep -m1 "^VIOLATION" "$D/out.txt" | sed 's/.*replay=//')
  if [ -n "$R" ] && [ -f "$R" ]; then
    cp "$R" "findings/regen/$n.replay.json"
    VERIF_EXECNET_SRC="$D/src" timeout 300 ./check replay "findings/regen/$n.replay.json" > "$D/r1.txt" 2>&1; RC1=$?
    timeout 300 ./check replay "findings/regen/$n.replay.json" > "$D/r2.txt" 2>&1; RC2=$?
    echo "$n: replay on reverted tree rc=$RC1 (expect 1), on /repo rc=$RC2 (expect 0) $(grep -m1 'class=' "$D/out.txt" | cut -c1-120)"
  else
    echo "$n: NOT FOUND within budget"
  fi
  rm -rf "$D"; rm -f replays/*.json
done
