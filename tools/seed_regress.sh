#!/bin/sh
# tools/seed_regress.sh [budget_s] [parallel]  -- run every kept seeded change against the check of its own property
# (scratch copy of /repo/src per seed, nothing is written to /repo or to evidence/); prints CAUGHT/MISSED per seed
B="${1:-30}"; P="${2:-4}"
cd "$(dirname "$0")/.." || exit 2
one() {
  d="$1"; id=$(basename "$d"); c=$(echo "$id" | cut -d- -f1)
  D="/dev/shm/vsim-sr-$id-$$"; rm -rf "$D"; mkdir -p "$D"; cp -r /repo/src "$D/src"
  if ! ( cd "$D" && patch -p1 -s < "/verif/$d/patch.diff" ) >/dev/null 2>&1; then echo "NOAPPLY $id"; rm -rf "$D"; return; fi
  OUT=$(VERIF_EXECNET_SRC="$D/src" VERIF_BUDGET_S="$2" VERIF_NO_EVIDENCE=1 VERIF_REPLAY_DIR="$D/replays" VERIF_JOBS=4 timeout 900 ./check "$c" 2>&1 | grep -v "^KNOWN")
  if echo "$OUT" | grep -q "^VIOLATION"; then echo "CAUGHT $id $(echo "$OUT" | grep -m1 'class=' | sed 's/.*class=\([^ ]*\).*/\1/')"; else echo "MISSED $id $(echo "$OUT" | tail -1 | cut -c1-100)"; fi
  rm -rf "$D"
}
N=0
for d in ${SEEDS:-seeded/C*-*}; do
  one "$d" "$B" &
  N=$((N+1))
  if [ $((N % P)) -eq 0 ]; then wait; fi
done
wait
