#!/bin/sh
# tools/sensitivity.sh [budget]  -- run every mutant against the check named by its file-name prefix (cNN_)
B="${1:-15}"
cd "$(dirname "$0")/.." || exit 2
for p in mutants/*.patch; do
  n=$(basename "$p" .patch)
  c=$(echo "$n" | cut -c1-3 | tr 'c' 'C')
  OUT=$(timeout 900 tools/mutant.sh "$p" "$c" "$B" 2>&1 | grep -v "^KNOWN")
  CLS=$(echo "$OUT" | grep -m1 "class=" | sed 's/.*class=\([^ ]*\).*/\1/')
  if echo "$OUT" | grep -q "^VIOLATION"; then echo "CAUGHT  $n by $c: $CLS"; else echo "MISSED  $n by $c: $(echo "$OUT" | tail -1 | cut -c1-120)"; fi
done
