#!/bin/sh
# tools/soak.sh <budget per check> <seeds...> : run every built check with several seeds, report anything that is not clean
B="$1"; shift
for s in "$@"; do
  for c in C02 C03 C04 C05 C07 C08 C09 C10 C11 C13 C14 C16 C18 C19 C20 C06 C15 C17; do
    [ -f checks/$(ls checks | grep -i "^$(echo $c | tr 'C' 'c')_" | head -1) ] || continue
    OUT=$(VERIF_NO_EVIDENCE=1 VERIF_SEED=$s VERIF_BUDGET_S=$B VERIF_JOBS=${VERIF_JOBS:-8} timeout 3000 ./check $c 2>&1)
    RC=$?
    echo "seed=$s $c rc=$RC $(echo "$OUT" | tail -1 | cut -c1-150)"
    if [ $RC -ne 0 ]; then echo "$OUT" | grep -E "VIOLATION|class=|HARNESS|further" | cut -c1-400; fi
  done
done
