#!/bin/sh
# tools/soak_thorough.sh <seed> [ids...] : one thorough-tier run of every check (registered budgets), no evidence written
S="$1"; shift
IDS="${*:-C19 C20 C09 C13 C14 C06 C07 C03 C10 C02 C08 C04 C05 C11 C18 C17 C16 C15}"
for c in $IDS; do
  OUT=$(VERIF_NO_EVIDENCE=1 VERIF_SEED=$S timeout 7200 ./check $c --tier thorough 2>&1)
  RC=$?
  echo "thorough seed=$S $c rc=$RC $(echo "$OUT" | tail -1 | cut -c1-160)"
  if [ $RC -ne 0 ]; then echo "$OUT" | grep -E "VIOLATION|class=|HARNESS|further" | cut -c1-400; fi
done
