"""Actor op language: generated programs that drive execnet's public API on both sides of a gateway,
and the history recorder (plain data only - never exception or channel objects)."""

from __future__ import annotations

import gc
import hashlib
import sys
import types

from .kernel import HarnessError, TaskKilled
from .prims import Latch

ENDM = "#ENDMARKER#"


class CbError(Exception):
    pass


class BodyError(Exception):
    pass


class BodyErrorB(BaseException):
    """a failure that derives directly from BaseException (like GeneratorExit or asyncio.CancelledError)"""


class BodyErrorS(Exception):
    """a failure whose str() fails itself"""

    def __str__(self):
        raise RuntimeError("str() of this exception fails")


# ---------------------------------------------------------------------------
# items
# ---------------------------------------------------------------------------


def mkfill(spec):
    k = spec[0]
    if k == "none":
        return None
    if k == "bool":
        return bool(spec[1])
    if k == "int":
        return int(spec[1])
    if k == "float":
        return float(spec[1])
    if k == "str":
        n, kind = spec[1], spec[2]
        if kind == "a":
            return ("abcdefghij" * (n // 10 + 1))[:n]
        base = "aé中\U0001f600\n "
        return (base * (n // len(base) + 1))[:n]
    if k == "bytes":
        n = spec[1]
        return (bytes(range(256)) * (n // 256 + 1))[:n]
    if k == "list":
        return [mkfill(x) for x in spec[1]]
    if k == "tuple":
        return tuple(mkfill(x) for x in spec[1])
    if k == "dict":
        return {mkfill(a): mkfill(b) for a, b in spec[1]}
    if k == "set":
        return set(spec[1])
    if k == "frozenset":
        return frozenset(spec[1])
    raise HarnessError(f"bad fill spec {spec!r}")


def mkitem(token, fill):
    return ("#IT:%s#" % token, mkfill(fill))


def canon(v):
    """Type-exact, compact description of a value."""
    t = type(v)
    if v is None or t is bool or t is int or t is float:
        return f"{t.__name__}:{v!r}"
    if t is str or t is bytes:
        if len(v) <= 40:
            return f"{t.__name__}:{v!r}"
        h = hashlib.sha1(v.encode("utf-8", "surrogatepass") if t is str else v).hexdigest()[:12]
        return f"{t.__name__}:{len(v)}:{h}"
    if t is list or t is tuple:
        return f"{t.__name__}[" + ",".join(canon(x) for x in v) + "]"
    if t is dict:
        return "dict{" + ",".join(f"{canon(a)}={canon(b)}" for a, b in v.items()) + "}"
    if t is set or t is frozenset:
        return f"{t.__name__}{{" + ",".join(sorted(canon(x) for x in v)) + "}"
    if t.__name__ == "Channel":
        return "Channel"
    return f"?{t.__name__}"


def token_of(item):
    if type(item) is tuple and item:
        h = item[0]
        if type(h) is bytes:
            # a gateway reconfigured with py3str_as_py2str=True hands strings over as bytes
            try:
                h = h.decode("utf-8")
            except UnicodeDecodeError:
                return None
        if type(h) is str and h.startswith("#IT:"):
            return h[4:-1]
    return None


def find_channel(v):
    if type(v).__name__ == "Channel":
        return v
    if isinstance(v, (list, tuple)):
        for x in v:
            c = find_channel(x)
            if c is not None:
                return c
    if isinstance(v, dict):
        for x in v.values():
            c = find_channel(x)
            if c is not None:
                return c
    return None


def exc_data(e, limit=400):
    name = type(e).__name__
    try:
        text = str(e)
    except Exception:  # noqa: BLE001
        text = "?"
    if len(text) > limit:
        text = text[:limit // 2] + " ... " + text[-limit // 2:]
    return ("exc", name, text)


# ---------------------------------------------------------------------------
# context
# ---------------------------------------------------------------------------


class Ctx:
    def __init__(self, world, case):
        self.w = world
        self.s = world.sched
        self.case = case
        self.H = []
        self.seq_time = {}
        self.tables = {}
        self.latches = {}
        self.done = {}
        self.cbcount = {}
        self.group = None
        self.gws = []
        self.errtext_limit = case.get("errtext_limit", 400)

    def latch(self, name):
        l = self.latches.get(name)
        if l is None:
            l = self.latches[name] = Latch(self.s)
        return l

    def done_latch(self, aid):
        l = self.done.get(aid)
        if l is None:
            l = self.done[aid] = Latch(self.s)
        return l

    def rec(self, aid, oi, phase, data):
        if self.s.teardown or self.s.finished:
            raise TaskKilled()  # the run is over: histories are frozen
        seq = self.s.next_seq()
        self.H.append((seq, aid, oi, phase, data))
        self.seq_time[seq] = self.s.now

    def table(self, key):
        t = self.tables.get(key)
        if t is None:
            t = self.tables[key] = {}
        return t


def install_bridge(ctx):
    mod = sys.modules.get("vsim_bridge")
    if mod is None:
        mod = types.ModuleType("vsim_bridge")
        sys.modules["vsim_bridge"] = mod
    mod.CTX = ctx
    mod.run_actor = run_actor
    mod.note = _note
    mod.canon = canon
    mod.sim_yield = _sim_yield  # (no closure over ctx: the module must not keep an old world alive)
    mod.latch_set = _latch_set
    return mod


def _note(*a):
    """Called by generated remote source: record a plain-data note in the history."""
    ctx = sys.modules["vsim_bridge"].CTX
    ctx.rec(-5, 0, "note", tuple(a))


def _latch_set(name):
    sys.modules["vsim_bridge"].CTX.latch(name).set()


def _sim_yield():
    sys.modules["vsim_bridge"].CTX.s.switch("yield", "")


def bridge_source(aid):
    return "import vsim_bridge\nvsim_bridge.run_actor(channel, %d)\n" % aid


def run_actor(channel, aid):
    """Entry point of a remote_exec'd actor body (runs inside the simulated worker)."""
    ctx = sys.modules["vsim_bridge"].CTX
    a = ctx.case["actors"][aid]
    proc = ctx.s.current.proc
    table = ctx.table((proc.pid if proc else 0, a.get("gw", 0)))
    table[a["chan"]] = channel
    table["__gw__"] = channel.gateway
    del channel
    interp(ctx, aid, table)


# ---------------------------------------------------------------------------
# interpreter
# ---------------------------------------------------------------------------


def interp(ctx, aid, table):
    s = ctx.s
    a = ctx.case["actors"][aid]
    cur = s.current
    try:
        for oi, op in enumerate(a["ops"]):
            k = op[0]
            cur.op = (aid, oi, k)
            ctx.rec(aid, oi, "inv", op)
            try:
                res = do_op(ctx, aid, oi, table, op)
            except (HarnessError, TaskKilled):
                raise
            except (BodyError, BodyErrorB, BodyErrorS):
                ctx.rec(aid, oi, "ret", ("raised",))
                cur.op = None
                raise
            except (KeyboardInterrupt, SystemExit) as e:
                ctx.rec(aid, oi, "ret", ("exc", type(e).__name__, ""))
                cur.op = None
                raise
            except BaseException as e:  # noqa: BLE001
                res = exc_data(e, ctx.errtext_limit)
                if k == "propagate":
                    # the exception is recorded and then leaves the body like in an unguarded user program
                    ctx.rec(aid, oi, "ret", res)
                    cur.op = None
                    raise
                e = None
            ctx.rec(aid, oi, "ret", res)
            cur.op = None
            if res and res[0] == "stop":
                break
    finally:
        cur.op = None
        ctx.rec(aid, -1, "done", None)
        ctx.done_latch(aid).set()


def _groupsnap(ctx):
    g = ctx.group
    ids = [str(gw.id) for gw in g]
    n = len(g)
    by_index = []
    for i in range(n):
        try:
            by_index.append(str(g[i].id))
        except Exception as e:  # noqa: BLE001
            by_index.append("!" + type(e).__name__)
    member = [bool(i in g) for i in ids]
    by_id = []
    for i in ids:
        try:
            by_id.append(str(g[i].id))
        except Exception as e:  # noqa: BLE001
            by_id.append("!" + type(e).__name__)
    # object level: membership and lookup of every gateway object this run ever created (also exited ones, whose
    # id may meanwhile belong to another member) must agree with identity in the iteration
    live = list(g)
    objbad = []
    for gw in ctx.gws:
        is_member = any(m is gw for m in live)
        try:
            said = bool(gw in g)
        except Exception as e:  # noqa: BLE001
            said = "!" + type(e).__name__
        if said != is_member:
            objbad.append((str(gw.id), said, is_member))
        elif is_member:
            try:
                if g[gw] is not gw:
                    objbad.append((str(gw.id), "lookup-other", True))
            except Exception as e:  # noqa: BLE001
                objbad.append((str(gw.id), "!" + type(e).__name__, True))
    return ("snap", ids, n, by_index, member, by_id, bool("no-such-id" in g), objbad)


class NoChannel(LookupError):
    """Harness-level: an earlier op that should have produced the channel failed."""


def _ch(table, label):
    try:
        return table[label]
    except KeyError:
        raise NoChannel(f"no channel {label!r} in table") from None


EXTRA_OPS = {}  # op kind -> fn(ctx, aid, oi, table, op): check-specific ops


def do_op(ctx, aid, oi, table, op):
    s = ctx.s
    k = op[0]
    if k in EXTRA_OPS:
        return EXTRA_OPS[k](ctx, aid, oi, table, op)
    if k == "send":
        _ch(table, op[1]).send(mkitem(op[2], op[3]))
        return ("ok",)
    if k == "send_raw":
        _ch(table, op[1]).send(_filedata(op[2]))
        return ("ok",)
    if k == "send_bad":
        # unserialisable item: must raise DumpError before anything is written
        _ch(table, op[1]).send(("#IT:%s#" % op[2], object()))
        return ("ok",)
    if k == "recv":
        to = op[2] if len(op) > 2 else None
        item = _ch(table, op[1]).receive(to) if to is not None else _ch(table, op[1]).receive()
        return ("item", token_of(item), canon(item))
    if k == "recv_t":
        # ["recv_t", ch, timeout, max_retries]: timed receive, retried after TimeoutError
        ch = _ch(table, op[1])
        for _ in range(op[3]):
            try:
                item = ch.receive(op[2])
            except ch.TimeoutError:
                ctx.rec(aid, oi, "sub", ("timeout",))
                s.probe("receive-timeout-fired")
                continue
            return ("item", token_of(item), canon(item))
        return ("gave-up",)
    if k == "drain":
        ch = _ch(table, op[1])
        n = 0
        while True:
            try:
                item = ch.receive()
            except EOFError:
                ctx.rec(aid, oi, "sub", ("eof",))
                break
            ctx.rec(aid, oi, "sub", ("item", token_of(item), canon(item)))
            n += 1
            del item
        return ("drained", n)
    if k == "iter":
        n = 0
        for item in _ch(table, op[1]):
            ctx.rec(aid, oi, "sub", ("item", token_of(item), canon(item)))
            n += 1
        ctx.rec(aid, oi, "sub", ("eof",))
        return ("drained", n)
    if k == "setcb":
        label, want_end, raise_at = op[1], op[2], op[3]
        notify_n = op[4] if len(op) > 4 else None
        notify_latch = ctx.latch(op[5]) if len(op) > 5 and op[5] else None
        end_latch = ctx.latch(op[6]) if len(op) > 6 and op[6] else None
        close_on_end = len(op) > 7 and op[7]
        state = {"n": 0}
        cbid = (aid, oi)

        E = _endm(ctx)

        def cb(item):
            n = state["n"]
            state["n"] = n + 1
            if item is E or (type(item) is type(E) and item == E):
                ctx.rec(aid, oi, "cb", ("end", label))
                if close_on_end:
                    # the usual reaction to the end of the stream: close our own end from inside the callback
                    try:
                        table[label].close()
                    except (OSError, KeyError):
                        pass
                if end_latch is not None:
                    end_latch.set()
            else:
                ctx.rec(aid, oi, "cb", ("item", token_of(item), canon(item), label))
                if notify_latch is not None and n + 1 == notify_n:
                    notify_latch.set()
            if raise_at is not None and n == raise_at:
                raise CbError("cb boom %s" % (cbid,))

        if want_end:
            _ch(table, label).setcallback(cb, endmarker=E)
        else:
            _ch(table, label).setcallback(cb)
        return ("ok",)
    if k == "close":
        if len(op) > 2 and op[2] is not None:
            _ch(table, op[1]).close(op[2])
        else:
            _ch(table, op[1]).close()
        return ("ok",)
    if k in ("waitclose", "waitclose_open"):
        to = op[2] if len(op) > 2 else None
        _ch(table, op[1]).waitclose(to) if to is not None else _ch(table, op[1]).waitclose()
        return ("ok",)
    if k == "poll_closed":
        # ["poll_closed", ch, tries]: wait (in simulated time) until isclosed() is true, without consuming anything
        ch = _ch(table, op[1])
        for _ in range(op[2]):
            if ch.isclosed():
                return ("val", True)
            s.sleep(0.05)
        return ("val", False)
    if k == "poll_remote":
        # ["poll_remote", ch, tries]: wait (in simulated time) until waitclose raises something
        ch = _ch(table, op[1])
        for _ in range(op[2]):
            try:
                ch.waitclose(0.5)
            except ch.TimeoutError:
                continue
            s.sleep(0.5)
        return ("gave-up",)
    if k == "isclosed":
        return ("val", bool(_ch(table, op[1]).isclosed()))
    if k == "drop":
        table.pop(op[1], None)
        return ("ok",)
    if k == "gc":
        gc.collect()
        return ("ok",)
    if k == "newchan":
        ch = table["__gw__"].newchannel()
        table[op[1]] = ch
        return ("chan", ch.id)
    if k == "chanid":
        return ("chan", _ch(table, op[1]).id)
    if k == "sendchan":
        # ["sendchan", via, label2, token, nesting]
        c2 = _ch(table, op[2])
        nest = op[4]
        if nest == "bare":
            payload = c2
        elif nest == "list":
            payload = [1, c2, "x"]
        elif nest == "tuple":
            payload = (c2,)
        else:
            payload = {"k": [c2]}
        _ch(table, op[1]).send(("#IT:%s#" % op[3], payload))
        return ("chan", c2.id)
    if k == "recvchan":
        # ["recvchan", via, label2, timeout?]
        item = _ch(table, op[1]).receive()
        c2 = find_channel(item)
        if c2 is None:
            return ("nochan", token_of(item), canon(item))
        table[op[2]] = c2
        return ("chan", c2.id, token_of(item))
    if k == "exec":
        # ["exec", label, aid2, gwindex]
        gw = ctx.gws[op[3] if len(op) > 3 else 0]
        ch = gw.remote_exec(bridge_source(op[2]))
        table[op[1]] = ch
        return ("chan", ch.id)
    if k == "exec_src":
        gw = ctx.gws[op[3] if len(op) > 3 else 0]
        ch = gw.remote_exec(op[2])
        table[op[1]] = ch
        return ("chan", ch.id)
    if k == "spawn":
        # start another local actor sharing this table
        aid2 = op[1]
        cur = s.current
        em = ctx.w.execmodel_for(cur.proc, "thread")
        em.start(interp, (ctx, aid2, table))
        return ("ok",)
    if k == "join":
        ok = ctx.done_latch(op[1]).wait(op[2] if len(op) > 2 else None)
        return ("val", bool(ok))
    if k == "latch_wait":
        ok = ctx.latch(op[1]).wait(op[2] if len(op) > 2 else None)
        return ("val", bool(ok))
    if k == "latch_set":
        ctx.latch(op[1]).set()
        return ("ok",)
    if k == "sleep":
        s.sleep(op[1])
        return ("ok",)
    if k == "yield":
        for _ in range(op[1]):
            s.switch("yield", "")
        return ("ok",)
    if k == "busy":
        # busy loop: yield points only, until the latch is set (or forever)
        l = ctx.latch(op[1]) if len(op) > 1 and op[1] else None
        while l is None or not l.flag:
            s.sleep(0.05)  # 50 ms of computation, then an interruptible point
        return ("ok",)
    if k == "linger":
        # the process outlives its connection by op[1] seconds (non-daemon thread / blocking atexit handler)
        s.current.proc.linger = op[1]
        return ("ok",)
    if k == "sig_ignore_term":
        # signal.signal(SIGTERM, SIG_IGN) of the simulated process
        s.current.proc.ignore_term = True
        return ("ok",)
    if k == "swallow_busy":
        # keeps running and swallows every KeyboardInterrupt (the worst-behaved remote program)
        n = 0
        while True:
            try:
                s.sleep(0.05)
            except KeyboardInterrupt:
                n += 1
                ctx.rec(aid, oi, "sub", ("swallowed", n))
    if k == "signal":
        # harness-level: deliver a signal to a simulated process by name
        from .gwsim import SIGS
        for p in ctx.w.procs:
            if p.name == op[1]:
                s.probe("fault:" + op[2])
                ctx.w.signal(p, SIGS[op[2]])
                return ("ok", p.name)
        return ("noproc",)
    if k == "alloc_make":
        # the documented two-step form: allocate the id for a spec object first, create the gateway later
        spec = ctx.w.mods["xspec"].XSpec(op[1])
        ctx.group.allocate_id(spec)
        allocated = str(spec.id)
        for _ in range(op[2] if len(op) > 2 else 0):
            s.switch("yield", "")
        try:
            gw = ctx.group.makegateway(spec)
        except Exception as e:  # noqa: BLE001
            return ("alloc-failed", allocated, type(e).__name__, str(e)[:200])
        ctx.gws.append(gw)
        t2 = ctx.table((s.current.proc.pid, len(ctx.gws) - 1))
        t2["__gw__"] = gw
        return ("gw", str(gw.id), allocated)
    if k == "makegateway":
        gw = ctx.group.makegateway(op[1])
        ctx.gws.append(gw)
        t2 = ctx.table((s.current.proc.pid, len(ctx.gws) - 1))
        t2["__gw__"] = gw
        return ("gw", str(gw.id))
    if k == "io_ctl":
        # ["io_ctl", gwindex, "wait"|"kill"|"close_write"]: the IO object's control operations
        gw = ctx.gws[op[1]]
        io = getattr(gw, "_io", None)
        if io is None:
            raise HarnessError("gateway has no _io attribute (IO seam changed)")
        r = getattr(io, op[2])()
        return ("val", r if isinstance(r, (int, type(None))) else repr(r))
    if k == "procstate":
        for p in ctx.w.procs:
            if p.name == op[1]:
                return ("proc", p.alive, p.exit_status)
        return ("noproc",)
    if k == "gwexit_id":
        try:
            gw = ctx.group[op[1]]
        except KeyError:
            return ("nogw",)
        try:
            gw.exit()
        except AttributeError:
            # (looked up while another task was still registering it: Group._register appends to the member list
            # before it sets gateway._group - seen in passing, outside the listed properties)
            return ("half-registered",)
        if op[-1] == "twice":
            try:
                gw.exit()  # the gateway is no member any more: "already unregistered", a no-op
            except Exception as e:  # noqa: BLE001
                return ("second-exit-raised", type(e).__name__, str(e)[:200])
        return ("ok",)
    if k == "groupsnap":
        # one consistent look at the container protocol (no sync point and no line preemption inside)
        s.current.notrace += 1
        try:
            return _groupsnap(ctx)
        finally:
            s.current.notrace -= 1
    if k == "grouplen":

        return ("val", len(ctx.group))
    if k == "now":
        return ("val", s.now)
    if k == "raise":
        kind = op[2] if len(op) > 2 else "exc"
        cls = {"exc": BodyError, "base": BodyErrorB, "badstr": BodyErrorS}[kind]
        raise cls(op[1] if len(op) > 1 else "body boom")
    if k == "os_exit":
        import os as _os
        _os._exit(op[1])
    if k == "raise_sys":
        raise SystemExit(op[1] if len(op) > 1 else 3)
    if k == "raise_named":
        import builtins as _bi
        raise getattr(_bi, op[1])("body raised " + op[1])
    if k == "propagate":
        return do_op(ctx, aid, oi, table, op[1])
    if k == "ident":
        cur = s.current
        return ("ident", cur.id, bool(cur.is_main), cur.proc.name if cur.proc else None)
    if k == "exit_body":
        return ("stop",)
    if k == "status":
        st = table["__gw__"].remote_status()
        return ("status", int(st.numchannels), int(st.numexecuting), str(st.execmodel))
    if k == "nchannels":
        gw = table["__gw__"]
        return ("val", len(gw._channelfactory.channels()) if hasattr(gw, "_channelfactory") else -1)
    if k == "ncallbacks":
        # anchored private state (C18): size of the per-gateway callback table; -1 if the attribute is gone
        cf = getattr(table["__gw__"], "_channelfactory", None)
        cbs = getattr(cf, "_callbacks", None)
        return ("val", len(cbs) if cbs is not None else -1)
    if k == "repr_gw":
        return ("val", repr(table["__gw__"]))
    if k == "hasreceiver":
        return ("val", bool(table["__gw__"].hasreceiver()))
    if k == "gwjoin":
        table["__gw__"].join(op[1] if len(op) > 1 else None)
        return ("ok",)
    if k == "mkfile_r":
        # ["mkfile_r", ch, calls] calls: [["read", n] | ["readline"]]
        f = _ch(table, op[1]).makefile("r")
        outs = []
        for c in op[2]:
            if c[0] == "read":
                outs.append(f.read(c[1]))
            else:
                outs.append(f.readline())
            ctx.rec(aid, oi, "sub", ("fileout", canon(outs[-1]), outs[-1] if len(outs[-1]) < 200 else None))
        return ("ok", len(outs))
    if k == "mkfile_w":
        # ["mkfile_w", ch, writes, proxyclose, write_after_close]
        ch = _ch(table, op[1])
        f = ch.makefile("w", proxyclose=bool(op[3]))
        for wdata in op[2]:
            if wdata == "#flush":
                f.flush()
            else:
                f.write(_filedata(wdata))
        f.close()
        closed = bool(ch.isclosed())
        late = None
        if len(op) > 4 and op[4]:
            try:
                f.write(_filedata(op[4]))
                late = "ok"
            except OSError:
                late = "OSError"
        return ("wfile", closed, late)
    if k == "mc_make":
        # ["mc_make", name, [labels]]
        multi = ctx.w.mods["multi"]
        table[op[1]] = multi.MultiChannel([_ch(table, l) for l in op[2]])
        return ("ok",)
    if k == "mc_drain":
        # ["mc_drain", name, labels, want_end, total_items, timeout]
        mc = table[op[1]]
        labels = op[2]
        chans = [table[l] for l in labels]
        E = _endm(ctx)
        q = mc.make_receive_queue(endmarker=E) if op[3] else mc.make_receive_queue()
        need_end = len(labels) if op[3] else 0
        need_items = op[4]
        Empty = ctx.w.execmodel_for(s.current.proc, "thread").queue.Empty
        while need_end > 0 or (not op[3] and need_items > 0):
            try:
                chan, item = q.get(timeout=op[5])
            except Empty:
                return ("timeout", need_end, need_items)
            lab = None
            for l, c in zip(labels, chans):
                if c is chan:
                    lab = l
            if item is E or (type(item) is type(E) and item == E):
                need_end -= 1
                ctx.rec(aid, oi, "sub", ("end", lab))
            else:
                need_items -= 1
                ctx.rec(aid, oi, "sub", ("item", token_of(item), canon(item), lab))
            del chan, item
        return ("ok",)
    if k in ("cycles_i", "cycles_w"):
        return _cycles(ctx, aid, oi, table, op)
    if k == "terminate":
        t0 = s.now
        ctx.group.terminate(op[1])
        me = s.current.proc
        alive = sorted(p.name for p in ctx.w.procs if p.parent is me and p.alive)
        return ("val", len(ctx.group), t0, s.now, alive)
    if k == "gwexit":
        ctx.gws[op[1]].exit()
        return ("ok",)
    if k == "gw_reconfigure":
        # gateway-level string coercion (Gateway.reconfigure), affects channels created afterwards on both sides
        ctx.gws[op[1]].reconfigure(py2str_as_py3str=op[2], py3str_as_py2str=op[3])
        return ("ok",)
    if k == "reconfigure":
        _ch(table, op[1]).reconfigure(py2str_as_py3str=op[2], py3str_as_py2str=op[3])
        return ("ok",)
    raise HarnessError(f"unknown op {op!r}")


def _filedata(w):
    if isinstance(w, dict) and "__bytes__" in w:
        return bytes.fromhex(w["__bytes__"])
    return w


# ---------------------------------------------------------------------------
# C18: many open -> transfer -> use -> close/drop cycles, both sides in lockstep
# ---------------------------------------------------------------------------

VARIANTS = ("close_creator", "close_receiver", "drop_both", "cb_close", "close_both", "drop_creator", "cb_close_hold",
            "close_creator_hold", "cb_drop_hold", "cb_drop_errclose_hold", "cb_peercb_drop",
            "peercb_badclose_close", "peercb_badclose_drop", "hold_badclose_close")
NESTS = ("bare", "list", "tuple", "dict")


def _cycle_plan(seed, n):
    import random
    r = random.Random(seed)
    return [(r.choice("iw"), r.choice(VARIANTS), r.choice(NESTS)) for _ in range(n)]


def _nest(c, how):
    if how == "bare":
        return c
    if how == "list":
        return [0, c]
    if how == "tuple":
        return (c, 1)
    return {"x": {"y": [c]}}


def _ignore_item(item):
    pass


def _endm(ctx):
    """the endmarker value of this run: a string by default; None and falsy values are legal endmarkers too"""
    kind = ctx.case.get("endmarker_kind", "obj")
    return {"obj": ENDM, "none": None, "zero": 0, "false": False, "empty": ""}[kind]


def _release(entry):
    c, variant = entry
    if variant == "cb_drop_errclose_hold":
        # the holder ends the conversation with an error; the creator's side (channel object gone, callback
        # still registered) can only warn about it, but has to forget the conversation all the same
        try:
            c.close("cycle ended with an error")
        except OSError:
            pass
    del c, entry


def _cycles(ctx, aid, oi, table, op):
    """["cycles_i"|"cycles_w", via, n, seed, gc_every]  - returns ("cycles", n_done, ids, anomalies)"""
    me = "i" if op[0] == "cycles_i" else "w"
    via = _ch(table, op[1])
    gw = table["__gw__"]
    plan = _cycle_plan(op[3], op[2])
    gc_every = op[4] if len(op) > 4 else 0
    ids = []
    bad = []
    got_cb = []
    held = []  # receiver-side references kept until the conversation was closed by its creator
    done = 0
    for k, (creator, variant, nest) in enumerate(plan):
        if len(held) > 3:
            _release(held.pop(0))
        tok = "cyc%d" % k
        if creator == me:
            c = gw.newchannel()
            ids.append(c.id)
            if variant.startswith("cb_"):
                del got_cb[:]
                c.setcallback(got_cb.append)
            via.send(("#IT:%s#" % tok, _nest(c, nest)))
            ack = via.receive()
            if variant.startswith("cb_"):
                # the item was sent before the ack on the same connection, callbacks run in wire order
                item = got_cb[0] if got_cb else None
            else:
                try:
                    item = c.receive(60)
                except Exception as e:  # noqa: BLE001
                    item = ("exc", type(e).__name__)
            if item != ("#IT:%s#" % tok, "on-sub", k):
                if len(bad) < 5:
                    bad.append(("wrong-item-on-transferred-channel", k, variant, canon(item)[:80]))
            if ack != ("ack", k):
                if len(bad) < 5:
                    bad.append(("wrong-ack", k, variant, canon(ack)[:80]))
            if variant in ("close_creator", "cb_close", "close_both", "cb_close_hold", "close_creator_hold"):
                c.close()
            if "_badclose_" in variant:
                # a close whose error object cannot be serialised fails (DumpError) and changes nothing: the
                # conversation is then ended properly - by a second close with a text, or by dropping the object
                try:
                    c.close(object())
                except Exception:  # noqa: BLE001
                    pass
                if variant.endswith("_close"):
                    try:
                        c.close("cycle ended with an error")
                    except OSError:
                        pass
            del c, item
        else:
            item = via.receive()
            c = find_channel(item)
            if c is None or token_of(item) != tok:
                if len(bad) < 5:
                    bad.append(("no-channel-in-item", k, variant, canon(item)[:80]))
                via.send(("ack", k))
                continue
            c.send(("#IT:%s#" % tok, "on-sub", k))
            if variant == "cb_peercb_drop" or variant.startswith("peercb_"):
                # both ends have a callback; this end is dropped first (last-message), the creator drops afterwards
                c.setcallback(_ignore_item)
            if variant in ("close_receiver", "close_both"):
                c.close()
            if variant.endswith("_hold") or variant.startswith("hold_"):
                # the creator's close / last-message arrives while this side still holds its end
                held.append((c, variant))
            del c, item
            via.send(("ack", k))
        done += 1
        if gc_every and (k + 1) % gc_every == 0:
            gc.collect()
    while held:
        _release(held.pop(0))
    gc.collect()
    return ("cycles", done, ids, bad)
