"""Bootstrap stub: what a freshly started (fake) interpreter does with its command line.

The child really executes the `-c` program it was started with
(`import sys;exec(eval(sys.stdin.readline()))`) - with a stand-in `sys` whose stdin/stdout are the
simulated pipes - and therefore really executes the source the initiator shipped.  Two things are
substituted because they touch real fds / real threads: `init_popen_io` and `get_execmodel`.

"bare" interpreters (explicit python=, ssh) refuse `import execnet` and anything outside the
stdlib, and answer `import __main__` with the namespace the shipped source was exec'd in.
"""

from __future__ import annotations

import __future__
import ast
import builtins
import hashlib
import sys
import types

from .kernel import HarnessError

_real_import = builtins.__import__
_compile_cache = {}
MONITOR = None  # set by vsim.trace when line preemption is available


def is_missing_executable(args):
    return bool(args) and "missing" in str(args[0])


def classify(args):
    """-> (kind, info). kind in import|bare|ssh-fail|ssh|unknown"""
    a0 = str(args[0])
    if a0 == "ssh" or (a0 == "vagrant" and len(args) > 1 and args[1] == "ssh"):
        if any("nohost" in str(x) for x in args):
            return "ssh-fail", None
        return "ssh", None
    if a0 == sys.executable:
        return "import", None
    return "bare", None


def _compile_statements(source, filename):
    key = hashlib.sha1(source.encode("utf-8", "surrogatepass")).hexdigest() + filename
    hit = _compile_cache.get(key)
    if hit is not None:
        return hit
    tree = ast.parse(source, filename)
    flags = 0
    for node in tree.body:
        if isinstance(node, ast.ImportFrom) and node.module == "__future__":
            for al in node.names:
                feat = getattr(__future__, al.name, None)
                if feat is not None:
                    flags |= feat.compiler_flag
    codes = []
    for node in tree.body:
        if isinstance(node, ast.ImportFrom) and node.module == "__future__":
            continue
        mod = ast.Module(body=[node], type_ignores=[])
        co = compile(mod, filename, "exec", flags=flags, dont_inherit=True)
        codes.append(co)
        if MONITOR is not None:
            MONITOR.register_code(co)
    _compile_cache[key] = codes
    return codes


class FakeSys:
    def __init__(self, stdin, stdout, world):
        self.__dict__["_over"] = {"stdin": stdin, "stdout": stdout, "stderr": world.stderr,
                                  "path": list(sys.path), "argv": ["-c"]}

    def __getattr__(self, name):
        ov = self.__dict__["_over"]
        if name in ov:
            return ov[name]
        return getattr(sys, name)

    def __setattr__(self, name, value):
        self.__dict__["_over"][name] = value


class TextIn:
    def __init__(self, rfile):
        self.buffer = rfile

    def readline(self):
        return self.buffer.readline().decode("utf-8")

    def close(self):
        self.buffer.close()


class TextOut:
    def __init__(self, wfile):
        self.buffer = wfile

    def write(self, s):
        self.buffer.write(s.encode("utf-8"))
        return len(s)

    def flush(self):
        self.buffer.flush()

    def close(self):
        self.buffer.close()


class ModProxy:
    def __init__(self, real, over):
        self.__dict__["_real"] = real
        self.__dict__["_over"] = over

    def __getattr__(self, name):
        ov = self.__dict__["_over"]
        if name in ov:
            return ov[name]
        return getattr(self.__dict__["_real"], name)


def child_main(world, proc, args, stdin, stdout):
    kind, _ = classify(args)
    if kind == "import" and proc.info.get("host_bare"):
        kind = "bare"
    proc.info["boot_kind"] = kind
    s = world.sched
    if kind == "ssh-fail":
        s.sleep(0.01)
        proc.exit(255)
        s.switch("exit", "")
        return
    # locate the -c program
    prog = None
    if kind in ("import", "bare"):
        if "-c" in args:
            prog = args[args.index("-c") + 1]
    else:  # ssh: last arg is `<python> -c "<bootstrapline>"`
        last = str(args[-1])
        i = last.find(' -c "')
        if i >= 0 and last.endswith('"'):
            prog = last[i + 5:-1]
    if prog is None:
        proc.info["boot_error"] = f"no -c program in argv {args!r}"
        proc.exit(2)
        s.switch("exit", "")
        return
    bare = kind != "import"
    proc.info["bare"] = bare
    main_mod = types.ModuleType("__main__")
    ns = main_mod.__dict__
    fsys = FakeSys(TextIn(stdin), TextOut(stdout), world)
    overrides = {}

    def sim_get_execmodel(backend):
        if not isinstance(backend, str):
            return backend
        if backend not in ("thread", "main_thread_only", "eventlet", "gevent"):
            raise ValueError(f"unknown execmodel {backend!r}")
        proc.info["execmodel"] = backend
        return world.execmodel_for(proc, backend)

    def sim_init_popen_io(execmodel):
        # exec bootstrap: the shipped source defined its own Popen2IO in this namespace
        P2 = ns.get("Popen2IO")
        if P2 is None:
            if bare:
                raise NameError("Popen2IO")
            P2 = world.gb.Popen2IO
        # gevent / eventlet file objects sit on a non-blocking descriptor: raw writes are short, and a
        # BufferedWriter keeps a tail of up to its buffer size until the next flush()
        if getattr(execmodel, "backend", None) in ("gevent", "eventlet") and hasattr(stdout, "nonblocking"):
            stdout.nonblocking = True
        io = P2(stdout, stdin, execmodel)
        proc.info["io_ready"] = True
        return io

    overrides["get_execmodel"] = sim_get_execmodel
    overrides["init_popen_io"] = sim_init_popen_io

    def guarded_import(name, globals=None, locals=None, fromlist=(), level=0):
        root = name.split(".")[0]
        if level == 0 and root == "sys":
            return fsys
        if level == 0 and name == "__main__":
            return main_mod
        if level == 0 and name == "vsim_bridge":
            return sys.modules["vsim_bridge"]  # harness back door for generated remote programs
        if bare:
            if level != 0 or root == "execnet" or root not in sys.stdlib_module_names:
                world.sched.probe("bare-import-denied")
                proc.info.setdefault("denied_imports", []).append(name)
                raise ImportError(f"No module named {name!r} (bare interpreter)")
            return _real_import(name, globals, locals, fromlist, level)
        mod = _real_import(name, globals, locals, fromlist, level)
        if name == "execnet.gateway_base" and fromlist:
            return ModProxy(mod, overrides)
        return mod

    def my_exec(source, globs=None, locs=None):
        if globs is None:
            # like the builtin: default to the caller's namespaces
            fr = sys._getframe(1)
            globs = fr.f_globals
            if globs is not ns:
                locs = fr.f_locals
        if globs is not ns:
            # keep the guarded builtins for code exec'd by the shipped copy (remote bodies)
            if bare and isinstance(globs, dict) and "__builtins__" not in globs:
                globs["__builtins__"] = bdict
            if locs is None:
                return _real_exec(source, globs)
            return _real_exec(source, globs, locs)
        if isinstance(source, (bytes, str)):
            if isinstance(source, bytes):
                source = source.decode("utf-8")
            codes = _compile_statements(source, "<string>")
        else:
            codes = [source]
        for co in codes:
            _real_exec(co, ns)
            # the two functions that touch real fds / real threads stay substituted even when the
            # shipped source (exec bootstrap) has just defined its own versions
            ns.update(overrides)

    _real_exec = builtins.exec
    bdict = dict(builtins.__dict__)
    bdict["__import__"] = guarded_import
    bdict["exec"] = my_exec
    ns["__builtins__"] = bdict
    try:
        my_exec(prog, ns)
    except SystemExit as e:
        code = e.code
        proc.exit(code if isinstance(code, int) else (0 if code is None else 1))
        s.switch("exit", "")
    else:
        # the interpreter's shutdown may take its time: a non-daemon thread of the remote program still running, a
        # blocking atexit handler ("linger" op) - the connection is closed by then, the process is not gone
        linger = getattr(proc, "linger", 0)
        if linger:
            s.probe("worker-lingers-after-serve")
            s.sleep(linger, "linger")
    # normal return => process exits with 0 (kernel calls main_returned)


def warm(world_gb_source=None):
    """Pre-compile the shipped source so forked workers inherit the cache."""
    if world_gb_source:
        _compile_statements(world_gb_source, "<string>")
