"""Command line: ./check <ID> [--tier T] | replay <file> | selftest-determinism | selftest-sensitivity"""

from __future__ import annotations

import importlib
import json
import os
import sys

VERIF = os.path.dirname(os.path.dirname(os.path.abspath(__file__)))
if VERIF not in sys.path:
    sys.path.insert(0, VERIF)

CHECKS = {
    "C02": "checks.c02_channels",
    "C03": "checks.c03_close",
    "C04": "checks.c04_cut",
    "C05": "checks.c05_terminate",
    "C06": "checks.c06_remote_exec",
    "C07": "checks.c07_remote_error",
    "C08": "checks.c08_frames",
    "C09": "checks.c09_pool",
    "C10": "checks.c10_callbacks",
    "C11": "checks.c11_orphans",
    "C13": "checks.c13_loads",
    "C14": "checks.c14_mto",
    "C15": "checks.c15_bootstrap",
    "C16": "checks.c16_transports",
    "C17": "checks.c17_rsync",
    "C18": "checks.c18_ids",
    "C19": "checks.c19_files",
    "C20": "checks.c20_specs",
}


def load_check(pid):
    return importlib.import_module(CHECKS[pid])


def _cleanup_scratch():
    """Remove what forked workers that were stopped at the end of the budget left behind under /dev/shm."""
    import glob
    import shutil
    tag = os.environ.get("VERIF_RUN_TAG")
    if tag and os.environ.get("VERIF_RUN_TAG_OWNER") == str(os.getpid()):
        for d in glob.glob(f"/dev/shm/vsim-c*-{tag}"):
            shutil.rmtree(d, ignore_errors=True)


def main(argv):
    try:
        return _main(argv)
    finally:
        _cleanup_scratch()


def _main(argv):
    # scratch directories of checks that use the real file system carry this tag, so that two runs of the same
    # check with the same VERIF_SEED (e.g. quick and thorough side by side) never share a directory; fixed width,
    # so that path lengths - and with them message sizes and schedules - do not depend on it
    if "VERIF_RUN_TAG" not in os.environ:
        os.environ["VERIF_RUN_TAG"] = "%08x" % (os.getpid() & 0xFFFFFFFF)
        os.environ["VERIF_RUN_TAG_OWNER"] = str(os.getpid())
    from vsim import runner

    if not argv:
        print(__doc__)
        return 2
    cmd = argv[0]
    tier = None
    if "--tier" in argv:
        tier = argv[argv.index("--tier") + 1]
    if cmd == "replay":
        path = argv[1]
        with open(path, encoding="utf-8") as f:
            doc = json.load(f)
        check = load_check(doc["property"])
        ok, same_digest, res, doc = runner.do_replay(check, path)
        if ok:
            print(f"VIOLATION property={doc['property']} replay={path}")
            print(f"  class={doc['class']} digest_equal={same_digest}")
            for v in res["violations"]:
                print(f"  {v['rule']};{v['key']}: {v['detail']}")
            return 1
        print(f"replay of {path}: violation class {doc['class']} NOT reproduced "
              f"(violations now: {[runner.vclass(v) for v in res['violations']]})")
        return 0
    if cmd.startswith("selftest"):
        from vsim import selftest
        return selftest.main(cmd, argv[1:])
    if cmd in CHECKS:
        check = load_check(cmd)
        return runner.main_check(check, tier)
    print(f"unknown command {cmd}")
    return 2


if __name__ == "__main__":
    sys.unraisablehook = lambda *a: None  # Channel.__del__ of leftovers after a finished simulation
    try:
        rc = main(sys.argv[1:])
    except SystemExit:
        raise
    except BaseException as e:  # noqa: BLE001
        import traceback
        traceback.print_exc()
        print(f"HARNESS-ERROR {e!r}")
        rc = 2
    sys.stdout.flush()
    sys.exit(rc)
