"""SimExecModel: the ExecModel seam of execnet, bound to one simulated process."""

from __future__ import annotations

from .kernel import HarnessError
from .prims import QueueModule, SimEvent, SimRLock


class SimExecModelBase:
    """Duck-typed ExecModel.  `backend` only selects code paths inside execnet."""

    def __init__(self, world, proc, backend="thread"):
        self._world = world
        self._proc = proc
        self._backend = backend
        self._queue = QueueModule(world.sched)

    @property
    def backend(self):
        return self._backend

    def __repr__(self):
        return "<SimExecModel %r>" % self._backend

    @property
    def queue(self):
        return self._queue

    @property
    def subprocess(self):
        return self._world.subprocess_module(self._proc)

    @property
    def socket(self):
        return self._world.socket_module(self._proc)

    def start(self, func, args=()):
        s = self._world.sched
        s.switch("start", "")
        s.spawn(func, args, name=getattr(func, "__name__", "thread"), proc=self._proc)

    def get_ident(self):
        return self._world.sched.current.id

    def sleep(self, delay):
        self._world.sched.sleep(delay)

    def fdopen(self, fd, mode, bufsize=1, closefd=True):
        raise HarnessError("SimExecModel.fdopen is not simulated (init_popen_io is stubbed)")

    def Lock(self):
        return SimRLock(self._world.sched)

    def RLock(self):
        return SimRLock(self._world.sched)

    def Event(self):
        return SimEvent(self._world.sched)

    def __getattr__(self, name):
        raise HarnessError(f"SimExecModel has no attribute {name!r} (ExecModel interface changed?)")


_cache = {}


def make_execmodel(world, proc, backend, base=None):
    """Create an exec model; with `base` (an ExecModel ABC) the result passes isinstance."""
    if base is None:
        return SimExecModelBase(world, proc, backend)
    cls = _cache.get(base)
    if cls is None:
        cls = type("SimExecModel", (SimExecModelBase, base), {})
        try:
            cls.__abstractmethods__ = frozenset()
        except Exception:
            pass
        _cache[base] = cls
    return cls(world, proc, backend)
