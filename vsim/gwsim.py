"""Gateway-level driver: build a world from a case (gateway specs + actor programs + faults + knobs),
run it under the chooser and return everything the oracles need as plain data."""

from __future__ import annotations

from . import actors as A
from .kernel import HarnessError, TaskKilled
from .procs import SIGCONT, SIGINT, SIGKILL, SIGSTOP, SIGTERM
from .world import World

SIGS = {"kill": SIGKILL, "term": SIGTERM, "stop": SIGSTOP, "cont": SIGCONT, "int": SIGINT}


class Result:
    pass


def run_case(case, chooser, max_steps=100_000, max_time=20000.0, keep_log=False):
    knobs = dict(case.get("knobs") or {})
    strategy = dict(case.get("strategy") or {"kind": "uniform"})
    w = World(chooser, knobs=knobs, strategy=strategy, max_steps=max_steps, max_time=max_time,
              keep_log=keep_log)
    s = w.sched
    if strategy.get("kind") == "pct":
        s.pct_changes = set(strategy.get("changes", ()))
    if case.get("preempt"):
        s.preempt_plan = set(case["preempt"])
    if case.get("preempt_at"):
        tg = {}
        for name, n in case["preempt_at"]:
            tg.setdefault(name, set()).add(n)
        s.preempt_targets = tg
    s.poplog = []
    ctx = A.Ctx(w, case)
    A.install_bridge(ctx)
    res = Result()
    res.setup_error = None
    res.fault_log = []
    p0_holder = {}

    def proc_named(name):
        for p in w.procs:
            if p.name == name:
                return p
        return None

    def fire(f):
        do = f["do"]
        kind = do[0]
        res.fault_log.append((s.next_seq(), round(s.now, 6), do))
        s.probe("fault:" + kind)
        if kind in SIGS:
            p = proc_named(do[1])
            if p is not None:
                w.signal(p, SIGS[kind])
        elif kind == "stall":
            p = proc_named(do[1])
            if p is not None:
                for t in p.tasks:
                    if t.state != "done":
                        s.stall_task(t, do[2])
        elif kind == "exit":
            p = proc_named(do[1])
            if p is not None:
                p.exit(do[2] if len(do) > 2 else 0)
        elif kind == "close_write":
            # the named process closes the write side of its connection to `do[2]` (kernel level)
            p = proc_named(do[1])
            if p is not None:
                for f_ in p.fds:
                    if getattr(f_, "pipe", None) is not None and hasattr(f_, "ubuf"):
                        f_.kernel_close()
        else:
            raise HarnessError(f"unknown fault {do!r}")

    # arm faults
    op_faults = {}
    byte_faults = []
    for f in case.get("faults") or ():
        at = f["at"]
        if at[0] == "step":
            s.at_step(at[1], lambda f=f: fire(f))
        elif at[0] == "rstep":
            pass  # relative to the end of gateway setup: armed by main()
        elif at[0] == "op":
            op_faults.setdefault((at[1], at[2], at[3]), []).append(f)
        elif at[0] in ("byte", "byte_after_boot"):
            byte_faults.append(f)
        elif at[0] == "time":
            # fire when the simulated clock reaches t: a helper task sleeps until then
            def timer(f=f, t=at[1]):
                s.sleep(t)
                fire(f)
            s.spawn(timer, name="fault-timer")
        else:
            raise HarnessError(f"unknown fault trigger {at!r}")
    if op_faults:
        orig_rec = ctx.rec

        def rec(aid, oi, phase, data):
            orig_rec(aid, oi, phase, data)
            fs = op_faults.get((aid, oi, phase))
            if fs:
                for f in fs:
                    fire(f)
                if s.current.proc is not None and not s.current.proc.alive:
                    s.switch("dead", "")

        ctx.rec = rec
    if byte_faults:
        # pipes are created by Popen/connect; arm the cut when the pipe appears
        def arm():
            for f in list(byte_faults):
                at = f["at"]
                for p in w.pipes:
                    if p.name.endswith(at[1]) and p.cut_at is None and not getattr(p, "_armed", False):
                        if at[0] == "byte" and at[2] < p.total:
                            continue
                        p._armed = True
                        if at[0] == "byte":
                            p.cut_at = at[2]
                        else:
                            p.cut_after_nl = at[2]
                        p.on_cut = (lambda f=f: fire(f))
                        byte_faults.remove(f)
                        break
        w.arm_byte_faults = arm
    else:
        w.arm_byte_faults = None

    def main():
        p0 = p0_holder["p"]
        cur = s.current
        try:
            ctx.group = w.make_group(p0, case.get("init_backend", "thread"))
            for gi, spec in enumerate(case.get("gateways") or ()):
                cur.op = (0, -2, f"makegateway:{spec}")
                gw = ctx.group.makegateway(spec)
                ctx.gws.append(gw)
                t = ctx.table((p0.pid, gi))
                t["__gw__"] = gw
            cur.op = None
            for f in case.get("faults") or ():
                if f["at"][0] == "rstep":
                    s.at_step(s.step + f["at"][1], lambda f=f: fire(f))
        except (HarnessError, TaskKilled):
            raise
        except BaseException as e:  # noqa: BLE001
            res.setup_error = A.exc_data(e, 600)
            ctx.rec(0, -2, "setup-exc", res.setup_error)
            cur.op = None
            return _park(s)
        a0 = case["actors"][0]
        table = ctx.table((p0.pid, a0.get("gw", 0)))
        A.interp(ctx, 0, table)
        if case.get("main_exits"):
            return  # the initiator process exits (C11)
        return _park(s)

    p0 = w.new_process("init", main)
    p0_holder["p"] = p0
    if w.arm_byte_faults:
        # arm lazily: whenever a pipe is created, see whether a pending cut fault names it
        class PList(list):
            def append(self_, p):
                list.append(self_, p)
                w.arm_byte_faults()
        w.pipes = PList(w.pipes)
    def cleanup():
        ctx.tables.clear()
        del ctx.gws[:]
        ctx.group = None
        import sys as _sys
        br = _sys.modules.get("vsim_bridge")
        if br is not None and getattr(br, "CTX", None) is ctx:
            br.CTX = None  # or the old world stays reachable until the next run has already started

    w.cleanup.append(cleanup)
    reason = w.run()
    res.reason = reason
    res.spinning = getattr(w, "spinning", None)
    res.H = ctx.H
    res.world = w
    res.sched = s
    res.ctx = ctx
    res.blocked = list(w.blocked_snapshot)
    res.procs = {p.name: {"alive": p.alive, "status": p.exit_status, "exit_time": p.exit_time,
                          "exit_seq": p.exit_seq, "crashes": list(p.thread_crashes), "info": dict(p.info),
                          "parent": p.parent.name if p.parent else None, "stopped": p.stopped,
                          "created_seq": p.created_seq}
                 for p in w.procs}
    res.pipes = {p.name: p for p in w.pipes}
    res.stderr = list(w.stderr.lines)
    res.leaked = w.leaked
    return res


def _park(s):
    cur = s.current
    cur.op = None
    s.block(lambda: False, None, "park", "main")


def livelock_violation(res, key=""):
    """If the run hit the step cap because a task spins inside the tree under test, say so as a violation."""
    sp = getattr(res, "spinning", None)
    if res.reason == "step-cap" and sp:
        return [{"rule": "livelock", "key": f"{sp[0]};{key}",
                 "detail": f"after {res.sched.step} sync points the world never came to rest: task {sp[1]} of process "
                           f"{sp[2]} keeps spinning in {sp[0]} ({sp[3]})"}]
    return []


def summarize(res, chooser, nontrivial=True, feats=(), sample=None, violations=()):
    s = res.sched
    return {
        "violations": list(violations), "digest": s.digest(), "sim_time": s.now, "steps": s.step,
        "switches": s.switches, "stats": dict(s.stats), "nontrivial": nontrivial,
        "features": set(feats), "sample": sample,
    }


def check_harness(res, allow_reasons=("quiescent",)):
    if res.reason == "step-cap" and getattr(res, "spinning", None):
        return  # a task spins inside the code under test: reported by livelock_violation(), not harness trouble
    if res.reason not in allow_reasons:
        raise HarnessError(f"run ended with {res.reason}")
    if res.leaked:
        raise HarnessError(f"{res.leaked} task threads leaked")
