"""vsim kernel: baton-passing scheduler over real OS threads, discrete-event clock,
choice sources (PRNG / recorded trace), event digest, quiescence detection.

Exactly one sim task runs at any time (it "holds the baton").  All others are parked on a
private lock.  The baton is passed only inside Sched.switch(), which every simulated
primitive calls at its synchronisation points.  Which task continues is decided by the
Chooser, so a run is a pure function of (code, program, chooser input).
"""

from __future__ import annotations

import _thread
import threading
import zlib

INF = float("inf")


class TaskKilled(BaseException):
    """Raised inside a sim task to unwind it (teardown / dead process)."""


class HarnessError(Exception):
    """Trouble inside the simulator itself - never a property violation."""


class Chooser:
    """One source of all in-run decisions.  PRNG mode records, trace mode replays.

    Index 0 is always the 'quiet' choice (continue current task / no fault / greedy chunk),
    so an exhausted or zeroed trace is a valid, calm execution.
    """

    __slots__ = ("rng", "replay", "pos", "trace", "limit")

    def __init__(self, rng=None, replay=None):
        self.rng = rng
        self.replay = replay
        self.pos = 0
        self.trace = []
        self.limit = 2_000_000

    def choose(self, n, weights=None):
        if n <= 1:
            return 0
        rp = self.replay
        if rp is not None:
            v = rp[self.pos] % n if self.pos < len(rp) else 0
            self.pos += 1
        elif weights is None:
            v = self.rng.randrange(n)
        else:
            v = self.rng.choices(range(n), weights)[0]
        self.trace.append(v)
        if len(self.trace) > self.limit:
            raise HarnessError("choice trace limit exceeded")
        return v

    def flip(self, p):
        """True with probability p (index 1), recorded as a 2-way choice."""
        rp = self.replay
        if rp is not None:
            v = rp[self.pos] % 2 if self.pos < len(rp) else 0
            self.pos += 1
        else:
            v = 1 if self.rng.random() < p else 0
        self.trace.append(v)
        return v == 1


class Task:
    __slots__ = (
        "id", "name", "proc", "thread", "_wake", "state", "pred", "deadline",
        "pending_exc", "func", "args", "op", "started", "exc", "is_main",
        "blocked_label", "prio", "notrace", "bytes_written",
    )

    def __init__(self, tid, name, proc, func, args):
        self.id = tid
        self.name = name
        self.proc = proc
        self.func = func
        self.args = args
        self._wake = _thread.allocate_lock()
        self._wake.acquire()
        self.state = "new"  # new | ready | blocked | done
        self.pred = None
        self.deadline = None
        self.pending_exc = None
        self.op = None  # harness: what API call the task is in (for blocked-forever)
        self.started = False
        self.exc = None
        self.is_main = False
        self.blocked_label = None
        self.prio = 0
        self.notrace = 0
        self.bytes_written = 0  # accepted by pipes/sockets from this task

    def __repr__(self):
        return f"<Task {self.id} {self.name} {self.state}>"


class Sched:
    def __init__(self, chooser, strategy=None, max_steps=200_000, max_time=3600.0,
                 keep_log=False):
        self.chooser = chooser
        self.tasks = []
        self.current = None
        self.now = 0.0
        self.step = 0
        self.max_steps = max_steps
        self.max_time = max_time
        self.crc = 0
        self.keep_log = keep_log
        self.log = []
        self.finished = None  # reason string once the run is over
        self.teardown = False
        self._main_wake = _thread.allocate_lock()
        self._main_wake.acquire()
        self.by_ident = {}
        self.seq = 0  # global event sequence for histories
        self.nlabels = {}
        self.strategy = strategy or {"kind": "uniform"}
        self.switches = 0
        self.stats = {}
        self.preempt_plan = None  # set of line-event indices
        self.line_events = 0
        self.preempt_sites = []
        self.preempt_targets = None  # co_name -> set of occurrence numbers
        self.site_counts = {}
        self.line_log = []
        self.poplog = None
        self.hooks_at_step = {}  # step -> [callable]  (fault triggers)
        self.on_quiescent = None
        self.abs_pairs = set()
        self.track_pairs = False
        self.harness_exc = None
        self.stall = {}  # task id -> until time (stall fault)
        self.pct_changes = None
        # per-process working directory (off by default): the one real cwd follows the task that holds the baton
        self.cwd_model = False
        self.cwd_now = None
        self.real_chdir = None

    def _enter(self, t):
        """t has just been given the baton"""
        if self.cwd_model and t.proc is not None:
            cwd = getattr(t.proc, "cwd", None)
            if cwd is not None and cwd != self.cwd_now:
                self.real_chdir(cwd)
                self.cwd_now = cwd

    # ---- labels -------------------------------------------------------
    def label(self, kind):
        n = self.nlabels.get(kind, 0) + 1
        self.nlabels[kind] = n
        return f"{kind}{n}"

    def next_seq(self):
        self.seq += 1
        return self.seq

    def probe(self, name, n=1):
        self.stats[name] = self.stats.get(name, 0) + n

    # ---- task creation ------------------------------------------------
    def spawn(self, func, args=(), name="t", proc=None, is_main=False):
        t = Task(len(self.tasks), name, proc, func, args)
        t.is_main = is_main
        self.tasks.append(t)
        if proc is not None:
            proc.tasks.append(t)
            if is_main:
                proc.main_task = t
        th = threading.Thread(target=self._bootstrap, args=(t,), daemon=True,
                              name=f"vsim-{t.id}-{name}")
        t.thread = th
        t.state = "ready"
        th.start()
        return t

    def _bootstrap(self, t):
        self.by_ident[_thread.get_ident()] = t
        t._wake.acquire()  # wait for the baton
        t.started = True
        try:
            if self.teardown:
                return
            self._enter(t)
            self._check_pending(t)
            t.func(*t.args)
        except TaskKilled:
            pass
        except BaseException as e:  # noqa: BLE001 - record, decide later
            t.exc = e
            if self.teardown:
                return
            if t.proc is not None:
                t.proc.on_task_exception(t, e)
        finally:
            self.by_ident.pop(_thread.get_ident(), None)
            t.state = "done"
            t.pred = None
            if not self.teardown:
                try:
                    if t.proc is not None and t.is_main and t.proc.alive:
                        t.proc.main_returned(t)
                    self._handoff_exit(t)
                except TaskKilled:
                    pass
                except BaseException as e:  # noqa: BLE001
                    self.harness_exc = e
                    self._finish("harness-exception")

    def _handoff_exit(self, t):
        # a finishing task passes the baton on without parking
        if self.finished:
            return
        self._log(t.id, "exit", "")
        nxt = self._pick(None)
        if nxt is None:
            return
        self.current = nxt
        self.switches += 1
        nxt._wake.release()

    # ---- running ------------------------------------------------------
    def run(self, wall_timeout=120.0):
        """Called from the harness thread: start the first task and wait for the end."""
        first = self._pick(None)
        if first is None:
            raise HarnessError("nothing to run")
        self.current = first
        first._wake.release()
        if not self._main_wake.acquire(timeout=wall_timeout):
            self.finished = "wall-timeout"
            raise HarnessError("wall timeout in sim run (a task spins without sync points?)")
        if self.harness_exc is not None:
            raise HarnessError(f"exception in scheduler: {self.harness_exc!r}") from self.harness_exc
        return self.finished

    def _finish(self, reason):
        if self.finished is None:
            self.finished = reason
            self._main_wake.release()

    def shutdown(self):
        """Unwind every remaining task thread (call from the harness thread after run())."""
        self.teardown = True
        leaked = 0
        for t in self.tasks:
            th = t.thread
            if th is None or not th.is_alive():
                continue
            t.pending_exc = TaskKilled()
            try:
                t._wake.release()
            except RuntimeError:
                pass
            th.join(2.0)
            if th.is_alive():
                leaked += 1
        return leaked

    # ---- the sync point -------------------------------------------------
    def cur(self):
        return self.current

    def _log(self, tid, kind, label):
        self.crc = zlib.crc32(b"%d:%b:%b;" % (tid, kind.encode(), str(label).encode()), self.crc)
        if self.keep_log:
            self.log.append((self.step, round(self.now, 6), tid, kind, label))

    def _check_pending(self, t):
        if self.teardown:
            raise TaskKilled()
        e = t.pending_exc
        if e is not None:
            t.pending_exc = None
            raise e

    def switch(self, kind="y", label="", force_other=False):
        """A synchronisation point of the current task: maybe hand the baton over."""
        cur = self.current
        if self.teardown:
            raise TaskKilled()
        if cur is None or _thread.get_ident() != cur.thread.ident:
            raise HarnessError(f"switch() from a thread that does not hold the baton ({kind} {label})")
        if self.finished:
            # run is over; park forever (unwound at shutdown)
            cur._wake.acquire()
            raise TaskKilled()
        self.step += 1
        self._log(cur.id, kind, label)
        hooks = self.hooks_at_step.pop(self.step, None)
        if hooks:
            for h in hooks:
                h()
        if self.step > self.max_steps:
            self._finish("step-cap")
            cur._wake.acquire()
            raise TaskKilled()
        nxt = self._pick(cur, force_other)
        if nxt is None:
            # quiescent: nothing can ever run again
            cur._wake.acquire()
            raise TaskKilled()
        if nxt is not cur:
            self.current = nxt
            self.switches += 1
            nxt._wake.release()
            cur._wake.acquire()
            if self.teardown:
                raise TaskKilled()
            self._enter(cur)
        e = cur.pending_exc
        if e is not None:
            cur.pending_exc = None
            cur.pred = None
            cur.deadline = None
            cur.state = "ready"
            raise e

    def block(self, pred, timeout=None, kind="b", label=""):
        """Park the current task until pred() holds or the timeout passes.

        Returns True if pred() holds at wake-up.  Interrupts are raised out of here.
        """
        cur = self.current
        if self.teardown:
            raise TaskKilled()
        if pred():
            # still a sync point
            self.switch(kind, label)
            if pred():
                return True
        cur.pred = pred
        cur.deadline = None if timeout is None else self.now + max(0.0, timeout)
        cur.state = "blocked"
        cur.blocked_label = (kind, label)
        try:
            self.switch(kind, label)
        finally:
            cur.pred = None
            cur.deadline = None
            cur.state = "ready" if cur.state == "blocked" else cur.state
            cur.blocked_label = None
        return bool(pred())

    def sleep(self, delay, label="sleep"):
        cur = self.current
        until = self.now + max(0.0, delay)
        self.block(lambda: self.now >= until, delay, "sleep", label)

    # ---- choosing -----------------------------------------------------
    def _wake_time(self, t):
        """Earliest simulated time at which task t can run (now if runnable, INF if never)."""
        if t.state == "done" or t.state == "new":
            return INF
        p = t.proc
        if p is not None and (not p.alive or p.stopped):
            return INF
        now = self.now
        if t.pending_exc is not None or t.pred is None:
            base = now
        elif t.deadline is not None and t.deadline <= now:
            base = now
        elif t.pred():
            base = now
        elif t.deadline is not None:
            base = t.deadline
        else:
            base = INF
        st = self.stall.get(t.id)
        if st is not None:
            if st <= now:
                del self.stall[t.id]
            elif base != INF and st > base:
                base = st
        return base

    def _pick(self, cur, force_other=False):
        if self.finished:
            return None
        while True:
            now = self.now
            runnable = []
            nxt_time = INF
            for t in self.tasks:
                wt = self._wake_time(t)
                if wt <= now:
                    runnable.append(t)
                elif wt < nxt_time:
                    nxt_time = wt
            if runnable:
                break
            # nobody can run: advance the clock to the next wake-up time
            if nxt_time == INF:
                if self.on_quiescent is not None and self.on_quiescent():
                    continue
                self._finish("quiescent")
                return None
            if nxt_time > self.max_time:
                self._finish("time-cap")
                return None
            self.now = nxt_time
            self._log(-1, "clock", round(self.now, 6))
        if len(runnable) == 1:
            return runnable[0]
        # order: current first (index 0 = keep running), then by task id
        if cur is not None and cur in runnable:
            runnable.remove(cur)
            if force_other:
                order = runnable
            else:
                order = [cur] + runnable
        else:
            order = runnable
        n = len(order)
        if n == 1:
            return order[0]
        ch = self.chooser
        if ch.replay is not None:
            idx = ch.choose(n)
        else:
            st = self.strategy
            k = st["kind"]
            if k == "uniform":
                idx = ch.choose(n)
            elif k == "sticky":
                if order[0] is cur and ch.rng.random() < st["p"]:
                    idx = 0
                    ch.trace.append(0)
                else:
                    idx = ch.choose(n)
            elif k == "default":
                idx = 0
                ch.trace.append(0)
            elif k == "pct":
                # random priorities assigned at creation; change points lower priority
                cp = self.pct_changes
                if cp and self.step in cp and cur is not None:
                    cur.prio = -self.step
                for t in order:
                    if t.prio == 0:
                        t.prio = ch.rng.random() + 1.0
                best = max(order, key=lambda t: t.prio)
                idx = order.index(best)
                ch.trace.append(idx)
            else:
                raise HarnessError(f"unknown strategy {k}")
        if self.track_pairs:
            self.abs_pairs.add((cur.blocked_label if cur is not None else None,
                                tuple(t.id for t in order), idx))
        return order[idx]

    # ---- faults on tasks ------------------------------------------------
    def interrupt(self, task, exc):
        task.pending_exc = exc

    def stall_task(self, task, delay):
        self.stall[task.id] = self.now + delay

    def at_step(self, step, fn):
        self.hooks_at_step.setdefault(step, []).append(fn)

    def blocked_tasks(self):
        out = []
        for t in self.tasks:
            if t.state == "blocked" and (t.proc is None or t.proc.alive):
                out.append(t)
        return out

    def digest(self):
        return "%08x-%d-%d" % (self.crc & 0xFFFFFFFF, self.step, len(self.chooser.trace))
