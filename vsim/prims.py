"""Simulated synchronisation primitives (locks, events, queues) on top of the kernel."""

from __future__ import annotations

import collections

from .kernel import HarnessError, TaskKilled


class SimRLock:
    """Reentrant lock (what ThreadExecModel.Lock()/RLock() return)."""

    reentrant = True

    def __init__(self, sched, label=None):
        self.s = sched
        self.label = label or sched.label("L")
        self.owner = None
        self.count = 0

    def acquire(self, blocking=True, timeout=-1):
        s = self.s
        cur = s.current
        if self.owner is cur and self.reentrant:
            self.count += 1
            return True
        if self.owner is cur and not self.reentrant and blocking and (timeout is None or timeout < 0):
            # self-deadlock on a plain lock: blocks forever, as the real one would
            s.block(lambda: False, None, "lock-self", self.label)
        if not blocking:
            s.switch("lock-try", self.label)
            if self.owner is None:
                self.owner = cur
                self.count = 1
                return True
            return False
        to = None if (timeout is None or timeout < 0) else timeout
        s.switch("lock", self.label)
        if self.owner is not None:
            s.probe("lock-contended")
            ok = s.block(lambda: self.owner is None, to, "lock-wait", self.label)
            if not ok:
                return False
        self.owner = cur
        self.count = 1
        return True

    def release(self):
        s = self.s
        if s.teardown:
            raise TaskKilled()
        if self.owner is not s.current:
            raise RuntimeError("cannot release un-acquired lock")
        self.count -= 1
        if self.count == 0:
            self.owner = None
            s.switch("unlock", self.label)

    def __enter__(self):
        self.acquire()
        return self

    def __exit__(self, *a):
        self.release()

    def locked(self):
        return self.owner is not None


class SimLock(SimRLock):
    """Plain (non-reentrant) lock, e.g. threading.Lock used by multi.Group."""

    reentrant = False

    def release(self):
        # a plain Lock may be released by any thread
        s = self.s
        if s.teardown:
            raise TaskKilled()
        if self.owner is None:
            raise RuntimeError("release unlocked lock")
        self.owner = None
        self.count = 0
        s.switch("unlock", self.label)


class SimEvent:
    def __init__(self, sched, label=None):
        self.s = sched
        self.label = label or sched.label("E")
        self.flag = False
        self.waiters = []

    def is_set(self):
        self.s.switch("ev-isset", self.label)
        return self.flag

    isSet = is_set

    def set(self):
        self.s.switch("ev-set", self.label)
        self.flag = True
        for tok in self.waiters:
            tok[0] = True
        if self.waiters:
            del self.waiters[:]
            # woken waiters may run before the setter continues
            self.s.switch("ev-set-post", self.label)

    def clear(self):
        self.s.switch("ev-clear", self.label)
        self.flag = False

    def wait(self, timeout=None):
        # threading.Event semantics: a waiter that was notified returns True even if the
        # flag has been cleared again before it got to run; a timed-out waiter returns False.
        s = self.s
        s.switch("ev-wait", self.label)
        if self.flag:
            return True
        if timeout is not None and timeout <= 0:
            return False
        tok = [False]
        self.waiters.append(tok)
        try:
            s.block(lambda: tok[0], timeout, "ev-block", self.label)
        finally:
            # by identity: tokens of different waiters compare equal as lists
            for i, t in enumerate(self.waiters):
                if t is tok:
                    del self.waiters[i]
                    break
        return tok[0]


class Empty(Exception):
    pass


class Full(Exception):
    pass


class SimQueue:
    """queue.Queue (unbounded) with a pop log for delivery-order oracles."""

    def __init__(self, sched, maxsize=0, label=None):
        self.s = sched
        self.label = label or sched.label("Q")
        self.items = collections.deque()
        self.poplog = None  # set to a list by the harness to record pops
        self.putlog = None

    def put(self, item, block=True, timeout=None):
        self.s.switch("q-put", self.label)
        self.items.append(item)
        if self.putlog is not None:
            self.putlog.append((self.s.next_seq(), item))
        # a put wakes a blocked getter, which may well run before the putter continues
        self.s.switch("q-put-post", self.label)

    put_nowait = put

    def get(self, block=True, timeout=None):
        s = self.s
        if not block:
            s.switch("q-get-nb", self.label)
            if not self.items:
                raise Empty
            return self._pop()
        if timeout is not None and timeout < 0:
            raise ValueError("'timeout' must be a non-negative number")
        ok = s.block(lambda: bool(self.items), timeout, "q-get", self.label)
        if not ok:
            raise Empty
        return self._pop()

    def _pop(self):
        item = self.items.popleft()
        pl = self.s.poplog
        if pl is not None and type(item) is tuple and item and type(item[0]) is str \
                and item[0].startswith("#IT:"):
            pl.append((self.s.next_seq(), self.label, item[0][4:-1]))
        return item

    def get_nowait(self):
        return self.get(block=False)

    def qsize(self):
        self.s.switch("q-size", self.label)
        return len(self.items)

    def empty(self):
        self.s.switch("q-size", self.label)
        return not self.items

    def task_done(self):
        pass


class QueueModule:
    """Stand-in for the `queue` module object handed out by ExecModel.queue."""

    Empty = Empty
    Full = Full

    def __init__(self, sched):
        self._s = sched

    def Queue(self, maxsize=0):
        return SimQueue(self._s, maxsize)


class Latch:
    """Harness-only ordering helper (never an execnet primitive)."""

    def __init__(self, sched, label=None):
        self.s = sched
        self.label = label or sched.label("latch")
        self.flag = False

    def set(self):
        self.flag = True

    def wait(self, timeout=None):
        self.s.block(lambda: self.flag, timeout, "latch", self.label)
        return self.flag
