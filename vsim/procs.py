"""Simulated processes, signals, fake subprocess module and process-wide os.* wrappers."""

from __future__ import annotations

import _thread
import os

from .kernel import HarnessError
from .sio import Pipe, RawWFile, RFile, WFile

SIGINT, SIGKILL, SIGTERM, SIGSTOP, SIGCONT = 2, 9, 15, 19, 18


class SimProcess:
    def __init__(self, world, name, parent=None):
        self.world = world
        self.pid = world.alloc_pid()
        self.name = name
        self.parent = parent
        self.alive = True
        self.stopped = False
        self.exit_status = None
        self.exit_time = None
        self.exit_seq = None
        self.tasks = []
        self.main_task = None
        self.fds = []
        self.children = []
        self.argv = None
        self.thread_crashes = []  # (task name, exception repr)
        self.created_seq = world.sched.next_seq()
        self.info = {}
        if parent is not None:
            parent.children.append(self)
            if getattr(parent, "cwd", None) is not None:
                self.cwd = parent.cwd
        world.procs.append(self)

    def __repr__(self):
        return f"<SimProcess {self.pid} {self.name} alive={self.alive}>"

    def exit(self, status):
        """Process termination: tasks never run again, all fds close."""
        if not self.alive:
            return
        self.alive = False
        self.exit_status = status
        self.exit_time = self.world.sched.now
        self.exit_seq = self.world.sched.next_seq()
        for f in self.fds:
            f.kernel_close()
        self.world.sched._log(-2, "proc-exit", f"{self.pid}:{status}")

    # kernel callbacks ----------------------------------------------------
    def on_task_exception(self, t, e):
        if t.is_main:
            # uncaught exception in the main thread: interpreter exits
            self.info["main_exc"] = repr(e)[:300]
            self.exit(130 if isinstance(e, KeyboardInterrupt) else 1)
        else:
            # like _thread: traceback printed, thread ends, process lives on
            import traceback
            self.thread_crashes.append(
                (t.name, "".join(traceback.format_exception(type(e), e, e.__traceback__))[-1500:])
            )

    def main_returned(self, t):
        self.exit(0)


class SimPopen:
    def __init__(self, world, parent, args, stdin=None, stdout=None, bufsize=-1):
        from . import boot

        s = world.sched
        s.switch("popen", "")
        args = list(args)
        if boot.is_missing_executable(args):
            raise FileNotFoundError(2, "No such file or directory", args[0])
        cap = world.knobs.get("pipe_cap", 65536)
        child = SimProcess(world, "child", parent)
        child.argv = args
        if parent is not None and parent.info.get("bare"):
            # a process started on a host without execnet is on that same host
            child.info["host_bare"] = True
        n = s.label("pp")
        world.name_process(child, args)
        to_child = Pipe(world, cap, f"{n}.{child.name}.in")
        from_child = Pipe(world, cap, f"{n}.{child.name}.out")
        # bufsize=0: the pipe ends are raw files - one write() is one write(2), no buffer and no lock
        self.stdin = (RawWFile if bufsize == 0 else WFile)(to_child, parent)
        self.stdout = RFile(from_child, parent)
        child_in = RFile(to_child, child)
        child_out = WFile(from_child, child)
        child.stdio = (child_in, child_out)
        child.pipes = (to_child, from_child)
        self.child = child
        self.pid = child.pid
        self.returncode = None
        self.world = world
        world.popens.append(self)
        s.spawn(boot.child_main, (world, child, args, child_in, child_out),
                name=f"main:{child.name}", proc=child, is_main=True)

    def poll(self):
        if not self.child.alive:
            self.returncode = self.child.exit_status
        return self.returncode

    def wait(self, timeout=None):
        s = self.world.sched
        s.switch("pwait", self.child.name)
        ok = s.block(lambda: not self.child.alive, timeout, "pwait", self.child.name)
        if not ok:
            raise TimeoutError("process wait timeout")
        self.returncode = self.child.exit_status
        return self.returncode

    def kill(self):
        s = self.world.sched
        s.switch("pkill", self.child.name)
        if self.returncode is not None:
            return  # already reaped: Popen.kill() is a no-op then
        self.world.signal(self.child, SIGKILL)

    def terminate(self):
        self.world.sched.switch("pterm", self.child.name)
        if self.returncode is not None:
            return
        self.world.signal(self.child, SIGTERM)


class SubprocessModule:
    PIPE = -1

    def __init__(self, world, proc):
        self.world = world
        self.proc = proc

    def Popen(self, args, stdin=None, stdout=None, bufsize=-1, **kw):
        unknown = set(kw) - {"close_fds", "universal_newlines", "text", "shell", "stderr", "env", "cwd"}
        if unknown or kw.get("shell") or kw.get("text") or kw.get("universal_newlines"):
            raise HarnessError(f"subprocess.Popen called with arguments the simulated kernel does not model: {sorted(kw)}")
        return SimPopen(self.world, self.proc, args, stdin, stdout, bufsize=bufsize)


# ---------------------------------------------------------------------------
# process-wide os wrappers (dispatch on "is the caller a sim task")
# ---------------------------------------------------------------------------

_real = {}
WORLD = None  # the world whose run is in progress in this OS process


def _cur_task():
    w = WORLD
    if w is None:
        return None
    return w.sched.by_ident.get(_thread.get_ident())


def _kill(pid, sig):
    t = _cur_task()
    if t is None or t.proc is None:
        return _real["kill"](pid, sig)
    w = WORLD
    target = w.proc_by_pid(pid)
    if target is None:
        raise ProcessLookupError(3, "No such process")
    w.sched.switch("kill", f"{pid}:{sig}")
    w.signal(target, sig, by=t)
    # the signal may have been for ourselves
    w.sched.switch("kill-ret", "")


def _exit(status):
    t = _cur_task()
    if t is None or t.proc is None:
        return _real["_exit"](status)
    w = WORLD
    w.sched.probe("os._exit")
    t.proc.exit(status)
    w.sched.switch("_exit", "")
    raise HarnessError("dead task continued after os._exit")


def _getpid():
    t = _cur_task()
    if t is None or t.proc is None:
        return _real["getpid"]()
    return t.proc.pid


def _listdir(path="."):
    names = _real["listdir"](path)
    w = WORLD
    t = _cur_task()
    if t is None or w is None or getattr(w, "listdir_seed", None) is None:
        return names
    import hashlib
    # directory order is file-system dependent: make it a seeded permutation
    return sorted(names, key=lambda n: hashlib.blake2b(f"{w.listdir_seed}:{n}".encode(), digest_size=8).digest())


def _chdir(path):
    # the working directory belongs to the calling *simulated* process (when the run models it: sched.cwd_model)
    _real["chdir"](path)
    t = _cur_task()
    w = WORLD
    if t is not None and t.proc is not None and w is not None and w.sched.cwd_model:
        t.proc.cwd = w.sched.cwd_now = _real["getcwd"]()


def cwd_model_on(world):
    """from now on every simulated process has its own working directory (children inherit at spawn)"""
    s = world.sched
    here = _real["getcwd"]()
    for p in world.procs:
        p.cwd = here
    s.real_chdir = _real["chdir"]
    s.cwd_now = here
    s.cwd_model = True


def cwd_model_off(world, back_to):
    world.sched.cwd_model = False
    _real["chdir"](back_to)


def _interrupt_main(signum=SIGINT):
    # _thread.interrupt_main(): "simulate the effect of a signal arriving in the main thread" - of the calling
    # *simulated* process, never of the checker itself
    t = _cur_task()
    if t is None or t.proc is None:
        return _real["interrupt_main"](signum)
    w = WORLD
    w.sched.switch("interrupt_main", "")
    w.signal(t.proc, signum, by=t)
    w.sched.switch("kill-ret", "")


def install_os_wrappers():
    if _real:
        return
    _real["interrupt_main"] = _thread.interrupt_main
    _thread.interrupt_main = _interrupt_main
    _real["listdir"] = os.listdir
    os.listdir = _listdir
    _real["kill"] = os.kill
    _real["chdir"] = os.chdir
    _real["getcwd"] = os.getcwd
    os.chdir = _chdir
    _real["_exit"] = os._exit
    _real["getpid"] = os.getpid
    os.kill = _kill
    os._exit = _exit
    os.getpid = _getpid
