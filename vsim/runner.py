"""Runner: seed fan-out over forked worker processes, budgets, watchdog, shrinking, replay files,
known-findings filter and evidence writer.  Shared by all checks."""

from __future__ import annotations

import faulthandler
import hashlib
import json
import os
import pickle
import random
import select
import signal
import subprocess
import sys
import time
import traceback

from .kernel import Chooser, HarnessError

VERIF = os.path.dirname(os.path.dirname(os.path.abspath(__file__)))
KNOWN = os.path.join(VERIF, "known_findings.txt")
PROB_SEEDS = 0


def run_seed(base, prop, idx):
    h = hashlib.blake2b(f"{base}:{prop}:{idx}".encode(), digest_size=8).digest()
    return int.from_bytes(h, "big")


def tree_identity():
    src = os.path.realpath(os.environ.get("VERIF_EXECNET_SRC", "/repo/src"))
    h = hashlib.sha1()
    d = os.path.join(src, "execnet")
    for root, dirs, files in sorted(os.walk(d)):
        dirs.sort()
        for f in sorted(files):
            if f.endswith(".py"):
                p = os.path.join(root, f)
                h.update(os.path.relpath(p, src).encode())
                with open(p, "rb") as fp:
                    h.update(fp.read())
    rev = ""
    try:
        rev = subprocess.run(["git", "-C", os.path.dirname(src), "rev-parse", "HEAD"],
                             capture_output=True, text=True, timeout=10).stdout.strip()
    except Exception:
        pass
    return {"src": src, "git_rev": rev, "src_sha1": h.hexdigest()}


# ---------------------------------------------------------------------------
# known findings
# ---------------------------------------------------------------------------


def load_known():
    found = {}
    fixed = []
    if os.path.exists(KNOWN):
        for line in open(KNOWN, encoding="utf-8"):
            line = line.strip()
            if not line or line.startswith("#"):
                continue
            if line.startswith("finding:"):
                parts = line[len("finding:"):].split()
                prop = cls = None
                rest = []
                for p in parts:
                    if p.startswith("property=") and prop is None:
                        prop = p[9:]
                    elif p.startswith("class=") and cls is None:
                        cls = p[6:]
                    else:
                        rest.append(p)
                if prop and cls:
                    found[(prop, cls)] = " ".join(rest)
            elif line.startswith("fixed:"):
                fixed.append(line)
    return found, fixed


def vclass(v):
    return f"{v['rule']};{v['key']}"


# ---------------------------------------------------------------------------
# one run
# ---------------------------------------------------------------------------


def one_run(check, base_seed, idx, tier, keep_trace=False):
    seed = run_seed(base_seed, check.PROP, idx)
    rng = random.Random(seed)
    gi = getattr(check, "gen_indexed", None)
    case = gi(idx, rng, tier) if gi is not None else check.gen(rng, tier)
    chooser = Chooser(rng=random.Random(seed ^ 0x9E3779B97F4A7C15))
    res = check.execute(case, chooser)
    res["idx"] = idx
    res["seed"] = seed
    if res.get("violations") or keep_trace:
        res["case"] = case
        res["trace"] = list(chooser.trace)
    return res


def replay_run(check, case, trace):
    chooser = Chooser(replay=list(trace))
    res = check.execute(case, chooser)
    res["trace"] = list(chooser.trace)
    return res


# ---------------------------------------------------------------------------
# forked chunk workers
# ---------------------------------------------------------------------------


def _chunk_worker(check, base_seed, tier, start, count, deadline, wfd):
    """Runs in a forked child: execute runs [start, start+count) and pickle a summary."""
    faulthandler.enable()
    if hasattr(check, "worker_init"):
        check.worker_init()
    out = {
        "runs": 0, "nontrivial": 0, "digests": set(), "sim_time": 0.0, "steps": 0,
        "stats": {}, "violations": [], "samples": [], "harness_errors": [], "switches": 0,
        "features": set(),
    }
    try:
        for idx in range(start, start + count):
            if time.time() > deadline:
                break
            try:
                res = one_run(check, base_seed, idx, tier)
            except HarnessError as e:
                out["harness_errors"].append((idx, repr(e), traceback.format_exc()[-3000:]))
                break
            except Exception as e:  # noqa: BLE001 - a bug in the check itself
                out["harness_errors"].append((idx, repr(e), traceback.format_exc()[-3000:]))
                break
            out["runs"] += 1
            out["sim_time"] += res.get("sim_time", 0.0)
            out["steps"] += res.get("steps", 0)
            out["switches"] += res.get("switches", 0)
            for k, v in res.get("stats", {}).items():
                out["stats"][k] = out["stats"].get(k, 0) + v
            for f in res.get("features", ()):
                out["features"].add(f)
            if res.get("nontrivial", True):
                out["nontrivial"] += 1
                out["digests"].add(res["digest"])
            if res.get("sample") is not None and len(out["samples"]) < 2:
                out["samples"].append(res["sample"])
            if res.get("violations"):
                if len(out["violations"]) < 40:
                    out["violations"].append({
                        "idx": idx, "seed": res["seed"], "violations": res["violations"],
                        "case": res["case"], "trace": res["trace"], "digest": res["digest"],
                    })
    except BaseException as e:  # noqa: BLE001
        out["harness_errors"].append((-1, repr(e), traceback.format_exc()[-3000:]))
    data = pickle.dumps(out, protocol=pickle.HIGHEST_PROTOCOL)
    try:
        with os.fdopen(wfd, "wb") as f:
            f.write(data)
    finally:
        os._exit(0)


def fan_out(check, base_seed, tier, budget_s, jobs, chunk, max_runs=None, chunk_wall=120.0):
    """Run chunks of run indices in forked children until the budget is used up."""
    start_t = time.time()
    deadline = start_t + budget_s
    agg = {
        "runs": 0, "nontrivial": 0, "digests": set(), "sim_time": 0.0, "steps": 0,
        "stats": {}, "violations": [], "samples": [], "harness_errors": [], "switches": 0,
        "features": set(), "chunks": 0,
    }
    next_idx = 0
    known, _ = load_known()
    per_class = {}
    unknown_records = [0]
    agg["class_counts"] = per_class
    active = {}  # rfd -> (pid, start, t0, buf)
    stop_new = False
    while True:
        now = time.time()
        while (not stop_new and len(active) < jobs and now < deadline
               and (max_runs is None or next_idx < max_runs)):
            cnt = chunk if max_runs is None else min(chunk, max_runs - next_idx)
            rfd, wfd = os.pipe()
            sys.stdout.flush()
            sys.stderr.flush()
            pid = os.fork()
            if pid == 0:
                os.close(rfd)
                for fd in list(active):
                    try:
                        os.close(fd)
                    except OSError:
                        pass
                faulthandler.dump_traceback_later(chunk_wall * 0.9, exit=False)
                cd = deadline if max_runs is None else time.time() + chunk_wall
                _chunk_worker(check, base_seed, tier, next_idx, cnt, cd, wfd)
                os._exit(0)
            os.close(wfd)
            active[rfd] = [pid, next_idx, now, bytearray()]
            next_idx += cnt
        if not active:
            break
        ready, _, _ = select.select(list(active), [], [], 0.5)
        for rfd in ready:
            ent = active[rfd]
            data = os.read(rfd, 1 << 20)
            if data:
                ent[3] += data
                continue
            os.close(rfd)
            del active[rfd]
            try:
                os.waitpid(ent[0], 0)
            except ChildProcessError:
                pass
            try:
                out = pickle.loads(bytes(ent[3]))
            except Exception as e:  # noqa: BLE001
                agg["harness_errors"].append((ent[1], f"chunk result unreadable: {e!r}", ""))
                stop_new = True
                continue
            agg["chunks"] += 1
            for k in ("runs", "nontrivial", "sim_time", "steps", "switches"):
                agg[k] += out[k]
            agg["digests"] |= out["digests"]
            agg["features"] |= out["features"]
            for k, v in out["stats"].items():
                agg["stats"][k] = agg["stats"].get(k, 0) + v
            for rec in out["violations"]:
                # keep a few records per class; only classes that are not listed known findings can stop the search
                classes = {vclass(x) for x in rec["violations"]}
                fresh = [c for c in classes if per_class.get(c, 0) < 6]
                for c in classes:
                    per_class[c] = per_class.get(c, 0) + 1
                if fresh:
                    agg["violations"].append(rec)
                if any((check.PROP, c) not in known for c in classes):
                    unknown_records[0] += 1
            if len(agg["samples"]) < 3:
                agg["samples"].extend(out["samples"][: 3 - len(agg["samples"])])
            agg["harness_errors"].extend(out["harness_errors"])
            if out["harness_errors"]:
                stop_new = True
            if unknown_records[0] >= 40:
                stop_new = True
        now = time.time()
        for rfd, ent in list(active.items()):
            if now - ent[2] > chunk_wall + 30:
                try:
                    os.kill(ent[0], signal.SIGKILL)
                    os.waitpid(ent[0], 0)
                except OSError:
                    pass
                os.close(rfd)
                del active[rfd]
                agg["harness_errors"].append((ent[1], "chunk wall timeout (worker killed)", ""))
                stop_new = True
    agg["wall_s"] = time.time() - start_t
    return agg


# ---------------------------------------------------------------------------
# shrinking
# ---------------------------------------------------------------------------


def _same_class(res, cls):
    for v in res.get("violations", ()):
        if vclass(v) == cls:
            return v
    return None


def shrink(check, case, trace, cls, time_limit=45.0):
    """Minimise (case, trace) keeping a violation of class `cls`.  Returns (case, trace, result)."""
    t_end = time.time() + time_limit
    best_case, best_trace = case, list(trace)
    best_res = replay_run(check, best_case, best_trace)
    if not _same_class(best_res, cls):
        return case, trace, None
    best_trace = best_res["trace"]

    def attempt(c, tr):
        nonlocal best_case, best_trace, best_res
        try:
            r = replay_run(check, c, tr)
        except HarnessError:
            return False
        except Exception:  # noqa: BLE001 - candidate case may be ill-formed
            return False
        if _same_class(r, cls):
            best_case, best_trace, best_res = c, r["trace"], r
            return True
        return False

    # 1. simpler cases (check-specific), schedule re-searched with a few seeds
    cand_fn = getattr(check, "shrink_cases", None)
    if cand_fn is not None:
        progress = True
        while progress and time.time() < t_end:
            progress = False
            for c in cand_fn(best_case):
                if time.time() > t_end:
                    break
                if attempt(c, best_trace):
                    progress = True
                    break
                ok = False
                for k in range(12):
                    if time.time() > t_end:
                        break
                    ch = Chooser(rng=random.Random(k * 7919 + 13))
                    try:
                        r = check.execute(c, ch)
                    except Exception:  # noqa: BLE001
                        break
                    if _same_class(r, cls):
                        best_case, best_trace, best_res = c, list(ch.trace), r
                        ok = True
                        break
                if ok:
                    progress = True
                    break
    # 2. trace: truncate, then zero blocks (fewer switches / faults / preemptions)
    n = len(best_trace)
    while n > 0 and time.time() < t_end:
        half = n // 2
        if attempt(best_case, best_trace[:half]):
            n = len(best_trace)
            if n <= half:
                n = half
            continue
        break
    block = max(1, len(best_trace) // 2)
    while block >= 1 and time.time() < t_end:
        i = 0
        changed = False
        while i < len(best_trace) and time.time() < t_end:
            seg = best_trace[i:i + block]
            if any(seg):
                cand = best_trace[:i] + [0] * len(seg) + best_trace[i + block:]
                if attempt(best_case, cand):
                    changed = True
            i += block
        if block == 1 and not changed:
            break
        block = block // 2 if block > 1 else (1 if changed else 0)
        if block == 0:
            break
    # strip trailing zeros (an exhausted trace answers 0)
    tr = list(best_trace)
    while tr and tr[-1] == 0:
        tr.pop()
    r = replay_run(check, best_case, tr)
    if _same_class(r, cls):
        best_trace, best_res = tr, r
    return best_case, best_trace, best_res


# ---------------------------------------------------------------------------
# replay files
# ---------------------------------------------------------------------------


def write_replay(check, case, trace, res, cls, seed, note=""):
    os.makedirs(os.path.join(VERIF, "replays"), exist_ok=True)
    v = _same_class(res, cls)
    name = f"{check.PROP}-{seed:016x}-{hashlib.sha1(cls.encode()).hexdigest()[:8]}.json"
    path = os.path.join(VERIF, "replays", name)
    doc = {
        "property": check.PROP, "check": check.__name__, "seed": seed, "class": cls,
        "violation": v, "case": case, "trace": trace, "digest": res["digest"],
        "tree": tree_identity(), "note": note,
    }
    with open(path, "w", encoding="utf-8") as f:
        json.dump(doc, f, indent=1, sort_keys=True, default=_jsonable)
    return path


def _jsonable(o):
    if isinstance(o, (set, frozenset)):
        return sorted(o, key=repr)
    if isinstance(o, bytes):
        return {"__bytes__": o.hex()}
    if isinstance(o, tuple):
        return list(o)
    return repr(o)


def do_replay(check, path):
    """Replay a file in this (fresh) process.  Returns (reproduced, result, doc)."""
    with open(path, encoding="utf-8") as f:
        doc = json.load(f)
    case = check.case_from_json(doc["case"]) if hasattr(check, "case_from_json") else doc["case"]
    res = replay_run(check, case, doc["trace"])
    v = _same_class(res, doc["class"])
    same_digest = res["digest"] == doc["digest"]
    return (v is not None), same_digest, res, doc


# ---------------------------------------------------------------------------
# evidence + main entry
# ---------------------------------------------------------------------------


def write_evidence(check, tier, seed, agg, nviol, extra_cov=None):
    if os.environ.get("VERIF_NO_EVIDENCE"):
        return "(evidence not written: VERIF_NO_EVIDENCE)"
    os.makedirs(os.path.join(VERIF, "evidence"), exist_ok=True)
    wall = agg["wall_s"]
    runs = agg["runs"]
    fault_counts = {k: v for k, v in sorted(agg["stats"].items()) if k.startswith(("fault:", "signal:"))}
    probes = {k: v for k, v in sorted(agg["stats"].items()) if not k.startswith(("fault:", "signal:"))}
    cov = {
        "evaluations": runs,
        "distinct_nontrivial": len(agg["digests"]),
        "rule": check.RULE,
        "samples": agg["samples"][:3] or ["(no sample recorded)"],
        "simulated_runs": runs,
        "runs_per_hour": int(runs / wall * 3600) if wall > 0 else 0,
        "seeds_per_hour": int(runs / wall * 3600) if wall > 0 else 0,
        "simulated_seconds_covered": round(agg["sim_time"], 3),
        "sync_points_executed": agg["steps"],
        "context_switches": agg["switches"],
        "fault_kinds_fired": fault_counts,
        "rare_condition_probes": probes,
        "distinct_interleavings_measure": "distinct run digests (crc32 over the ordered log of "
                                          "(task, sync kind, object) events + step and choice counts) "
                                          "among non-trivial runs",
        "distinct_features": len(agg["features"]),
        "worker_chunks": agg["chunks"],
        "components": getattr(check, "COMPONENTS", {}),
        "exhaustive": False,
    }
    if extra_cov:
        cov.update(extra_cov)
    doc = {
        "property_id": check.PROP,
        "tier": tier,
        "seed": seed,
        "level": check.LEVEL,
        "coverage": cov,
        "assumptions": list(getattr(check, "ASSUMPTIONS", [])),
        "wall_s": round(wall, 2),
        "violations": nviol,
        "tree": tree_identity(),
    }
    path = os.path.join(VERIF, "evidence", f"{check.PROP}.json")
    tmp = path + ".tmp"
    with open(tmp, "w", encoding="utf-8") as f:
        json.dump(doc, f, indent=1, sort_keys=True, default=_jsonable)
    os.replace(tmp, path)
    return path


def main_check(check, tier=None):
    """Entry point of `./check <ID>`.  Returns the process exit code."""
    tier = tier or os.environ.get("VERIF_TIER", "quick")
    if tier not in ("quick", "thorough"):
        tier = "quick"
    seed = int(os.environ.get("VERIF_SEED", "0") or 0)
    jobs = int(os.environ.get("VERIF_JOBS", "0") or 0) or min(16, os.cpu_count() or 4)
    defaults = check.BUDGET[tier]
    budget = float(os.environ.get("VERIF_BUDGET_S", "0") or 0) or defaults["budget_s"]
    max_runs = os.environ.get("VERIF_RUNS")
    max_runs = int(max_runs) if max_runs else None
    chunk = defaults.get("chunk", 100)
    if hasattr(check, "prepare"):
        check.prepare(tier)
    t0 = time.time()
    agg = fan_out(check, seed, tier, budget, jobs, chunk, max_runs=max_runs,
                  chunk_wall=defaults.get("chunk_wall", 180.0))
    extra_cov = None
    if hasattr(check, "extra"):
        # deterministic / exhaustive side computations of a check (run in-process)
        extra_cov, extra_viol = check.extra(tier, seed, agg)
        agg["violations"].extend(extra_viol)
    known, _fixed = load_known()
    exit_code = 0
    if agg["harness_errors"]:
        for idx, msg, tb in agg["harness_errors"][:5]:
            print(f"HARNESS-ERROR property={check.PROP} run={idx} {msg}")
            if tb:
                print(tb)
        exit_code = 2
    # group violations by class
    by_class = {}
    for rec in agg["violations"]:
        for v in rec["violations"]:
            by_class.setdefault(vclass(v), []).append((rec, v))
    new_classes = []
    for cls, recs in sorted(by_class.items()):
        if (check.PROP, cls) in known:
            print(f"KNOWN-FINDING: property={check.PROP} class={cls} {known[(check.PROP, cls)]} "
                  f"[seen in {agg.get('class_counts', {}).get(cls, len(recs))} runs]")
        else:
            new_classes.append(cls)
    prefer = os.environ.get("VERIF_PREFER")
    if prefer:
        new_classes.sort(key=lambda c: (prefer not in c, c))
    nviol = 0
    shrink_budget = float(os.environ.get("VERIF_SHRINK_S", "0") or 0) or defaults.get("shrink_s", 40.0)
    for cls in new_classes[:3]:
        recs = by_class[cls]
        # smallest trace first
        rec, v = min(recs, key=lambda rv: len(rv[0]["trace"]))
        try:
            if rec.get("noshrink"):
                c, tr, r = rec["case"], rec["trace"], replay_run(check, rec["case"], rec["trace"])
            else:
                c, tr, r = shrink(check, rec["case"], rec["trace"], cls, shrink_budget)
        except Exception as e:  # noqa: BLE001
            print(f"HARNESS-ERROR property={check.PROP} shrinking failed: {e!r}")
            traceback.print_exc()
            c, tr, r = rec["case"], rec["trace"], None
        if r is None or not _same_class(r, cls):
            # not reproducible in-process: report as harness trouble, never as success
            print(f"HARNESS-ERROR property={check.PROP} violation class {cls} did not replay "
                  f"(run idx {rec['idx']}); detail: {v.get('detail')}")
            exit_code = 2
            continue
        path = write_replay(check, c, tr, r, cls, rec["seed"])
        vv = _same_class(r, cls)
        print(f"VIOLATION property={check.PROP} replay={path}")
        print(f"  class={cls} seen_in_runs={len(recs)} trace_len={len(tr)} detail={vv.get('detail')}")
        nviol += 1
        # a violation that replayed is reported as such even if other runs of the batch ended in harness trouble
        # (a tree that breaks the property can also drive runs into the step cap)
        exit_code = 1
    for cls in new_classes[3:]:
        print(f"  (further unlisted violation class not minimised: {cls}, {len(by_class[cls])} runs)")
        nviol += 1
    if not agg["samples"] and agg["runs"] > 0:
        # make sure the evidence shows at least one actual case of this run
        try:
            r0 = one_run(check, seed, 0, tier, keep_trace=True)
            cj = json.dumps(r0["case"], default=_jsonable)
            agg["samples"].append({"run_index": 0, "case": json.loads(cj) if len(cj) < 6000 else cj[:6000] + " ...(truncated)",
                                   "digest": r0["digest"], "choices_made": len(r0["trace"]),
                                   "violations": [vclass(x) for x in r0["violations"]]})
        except Exception as e:  # noqa: BLE001
            agg["samples"].append(f"(sample run failed: {e!r})")
    path = write_evidence(check, tier, seed, agg, len(new_classes), extra_cov)
    wall = time.time() - t0
    print(f"{check.PROP} tier={tier} seed={seed} runs={agg['runs']} distinct={len(agg['digests'])} "
          f"classes_seen={len(by_class)} new={len(new_classes)} wall={wall:.1f}s "
          f"({int(agg['runs'] / max(agg['wall_s'], 1e-9) * 3600)} runs/h) evidence={path}")
    if agg["runs"] == 0 and exit_code == 0:
        print(f"HARNESS-ERROR property={check.PROP} no run completed")
        exit_code = 2
    return exit_code
