"""Self tests: determinism (same seed twice, fresh interpreter, other PYTHONHASHSEED) and smoke."""

from __future__ import annotations

import json
import os
import subprocess
import sys
import time

from . import runner

VERIF = os.path.dirname(os.path.dirname(os.path.abspath(__file__)))


def digests(pid, tier, base_seed, start, count, reverse=False):
    from .cli import load_check
    check = load_check(pid)
    if hasattr(check, "prepare"):
        check.prepare(tier)
    out = []
    order = range(start, start + count)
    if reverse:
        order = reversed(order)
    for idx in order:
        r = runner.one_run(check, base_seed, idx, tier)
        out.append((idx, r["digest"], sorted(runner.vclass(v) for v in r.get("violations", ()))))
    return out


def main(cmd, argv):
    from .cli import CHECKS
    if cmd == "selftest-smoke":
        from .world import load_execnet
        m = load_execnet()
        print("execnet from", m["execnet"].__file__)
        a = digests("C09", "quick", 1, 0, 30)
        b = digests("C09", "quick", 1, 0, 30)
        if a != b:
            print("HARNESS-ERROR smoke: nondeterministic digests")
            return 2
        print("smoke ok", len(a), "runs twice identical")
        return 0
    if cmd == "selftest-digests":
        # internal: print digests as JSON (used by selftest-determinism in a fresh interpreter)
        pid, tier, seed, start, count = argv[0], argv[1], int(argv[2]), int(argv[3]), int(argv[4])
        print("DIGESTS " + json.dumps(digests(pid, tier, seed, start, count)))
        return 0
    if cmd == "selftest-determinism":
        pids = [a for a in argv if a in CHECKS] or []
        if not pids:
            for p, modname in sorted(CHECKS.items()):
                if os.path.exists(os.path.join(VERIF, modname.replace(".", "/") + ".py")):
                    pids.append(p)
        n = int(os.environ.get("VERIF_DET_RUNS", "200"))
        seed = int(os.environ.get("VERIF_SEED", "0") or 0)
        bad = 0
        if len(pids) > 1:
            # one OS process per check (a check may set process-wide limits, e.g. C13's RLIMIT_AS)
            for pid in pids:
                p = subprocess.run([sys.executable, "-B", "-m", "vsim.cli", "selftest-determinism", pid], cwd=VERIF,
                                   env=dict(os.environ, PYTHONHASHSEED="0", PYTHONDONTWRITEBYTECODE="1"),
                                   capture_output=True, text=True, timeout=7200)
                lines = [l for l in p.stdout.splitlines() if l.startswith(("determinism", "  order-dependent", "  first difference"))]
                print("\n".join(lines) if lines else f"determinism {pid}: no result (rc={p.returncode}) {p.stderr[-300:]}")
                sys.stdout.flush()
                if p.returncode != 0:
                    bad += 1
            return 2 if bad else 0
        for pid in pids:
            t0 = time.time()
            a = digests(pid, "quick", seed, 0, n)
            b = digests(pid, "quick", seed, 0, n)
            # a run must not depend on which runs happened before it in the same OS process
            c = sorted(digests(pid, "quick", seed, 0, n, reverse=True))
            same_proc = a == b and c == sorted(a)
            if c != sorted(a):
                for x, y in zip(sorted(a), c):
                    if tuple(x) != tuple(y):
                        print("  order-dependent run:", x, y)
                        break
            fresh = []
            for hs in ("0", "7", "random"):
                env = dict(os.environ, PYTHONHASHSEED=hs, PYTHONDONTWRITEBYTECODE="1")
                p = subprocess.run([sys.executable, "-B", "-m", "vsim.cli", "selftest-digests", pid, "quick",
                                    str(seed), "0", str(n)], cwd=VERIF, env=env, capture_output=True, text=True,
                                   timeout=3600)
                line = [l for l in p.stdout.splitlines() if l.startswith("DIGESTS ")]
                if not line:
                    print(p.stdout[-2000:], p.stderr[-2000:])
                    fresh.append(False)
                    continue
                c = [(i, d, v) for i, d, v in json.loads(line[0][8:])]
                fresh.append(c == [(i, d, v) for i, d, v in a])
                if c != a:
                    for x, y in zip(a, c):
                        if tuple(x) != tuple(y):
                            print("  first difference:", x, y)
                            break
            ok = same_proc and all(fresh)
            print(f"determinism {pid}: runs={n} same-process={same_proc} fresh-interpreter(hashseed 0,7,random)={fresh} "
                  f"{'OK' if ok else 'FAILED'} ({time.time() - t0:.1f}s)")
            if not ok:
                bad += 1
        return 2 if bad else 0
    print("unknown selftest", cmd)
    return 2
