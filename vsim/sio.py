"""Simulated kernel byte streams: pipes (with BufferedWriter/Reader-like file objects) and sockets.

Semantics that properties depend on (see DESIGN.md 2.3):
* WFile.write is atomic w.r.t. other writers of the same file object (internal lock held across a
  blocking write), user-space buffer below BUFSZ is pushed on flush();
* RFile.read(n) returns 1..n bytes (chunk policy knob) or b"" at EOF;
* socket.send copies at most the free buffer space; sendall = loop of send with a sync point between;
* a dead writer => buffered bytes then EOF; a dead reader => BrokenPipeError on write.
"""

from __future__ import annotations

from .kernel import HarnessError
from .prims import SimRLock

BUFSZ = 8192


class Pipe:
    """One-directional bounded kernel buffer."""

    def __init__(self, world, cap, name):
        self.world = world
        self.s = world.sched
        self.cap = cap
        self.name = name
        self.buf = bytearray()
        self.r_open = True
        self.w_open = True
        self.total = 0  # bytes ever accepted
        self.wire = bytearray()  # everything ever accepted (for the independent parser)
        self.cut_at = None  # fault: accept exactly this many bytes in total, then fire on_cut
        self.cut_after_nl = None  # fault: like cut_at, counted from the end of the first line (bootstrap)
        self.on_cut = None
        self.discard = False  # reader shut down its side: bytes are dropped
        self.delivered = 0  # bytes handed to the reader
        world.pipes.append(self)

    def space(self):
        return self.cap - len(self.buf)

    def push(self, data):
        """Accept bytes (caller checked space).  Applies the cut fault."""
        n = len(data)
        if self.cut_after_nl is not None and self.cut_at is None:
            i = data.find(b"\n")
            if i >= 0:
                self.cut_at = self.total + i + 1 + self.cut_after_nl
                self.cut_after_nl = None
        if self.cut_at is not None and self.total + n >= self.cut_at:
            n = self.cut_at - self.total
            data = data[:n]
            self._accept(data)
            cb = self.on_cut
            self.cut_at = None
            self.on_cut = None
            self.s.probe("fault:cut-fired")
            if cb is not None:
                cb()
            return n
        self._accept(data)
        return n

    def _accept(self, data):
        self.total += len(data)
        t = self.s.current
        if t is not None and t.proc is not None:
            # who wrote how much (all pipes and sockets of the process together)
            t.proc.bytes_written = getattr(t.proc, "bytes_written", 0) + len(data)
            t.bytes_written += len(data)
        if len(self.wire) < (64 << 20):
            self.wire += data
        if not self.discard:
            self.buf += data

    def pop(self, k):
        data = bytes(self.buf[:k])
        del self.buf[:k]
        self.delivered += len(data)
        return data


class WFile:
    """Write end with io.BufferedWriter semantics."""

    def __init__(self, pipe, owner):
        self.pipe = pipe
        self.s = pipe.s
        self.owner = owner
        self.lock = SimRLock(self.s, self.s.label("wl"))
        self.ubuf = bytearray()
        self.closed = False
        self.nonblocking = False
        if owner is not None:
            owner.fds.append(self)

    def _raw_short(self, data):
        """one cooperative raw write on a non-blocking descriptor: waits until there is room, then writes what fits"""
        p = self.pipe
        s = self.s
        while True:
            if not p.r_open:
                raise BrokenPipeError(32, "Broken pipe")
            space = p.space()
            if space > 0:
                break
            s.probe("write-blocked-on-full-pipe")
            s.block(lambda: (not p.r_open) or p.space() > 0, None, "pipe-full", p.name)
        k = min(space, len(data))
        got = p.push(bytes(data[:k]))
        if got < k:
            s.switch("w-cut", p.name)
            raise BrokenPipeError(32, "Broken pipe")
        return got

    def _raw(self, data):
        p = self.pipe
        s = self.s
        off = 0
        n = len(data)
        mv = memoryview(data)
        while off < n:
            if not p.r_open:
                raise BrokenPipeError(32, "Broken pipe")
            space = p.space()
            if space <= 0:
                s.probe("write-blocked-on-full-pipe")
                s.block(lambda: (not p.r_open) or p.space() > 0, None, "pipe-full", p.name)
                continue
            k = min(space, n - off)
            got = p.push(bytes(mv[off:off + k]))
            off += got
            if got < k:
                # cut fault fired inside push; the writer process is normally dead now
                s.switch("w-cut", p.name)
                raise BrokenPipeError(32, "Broken pipe")
            if off < n:
                s.switch("w-part", p.name)

    def write(self, data):
        s = self.s
        s.switch("w", self.pipe.name)
        self.lock.acquire()
        try:
            if self.closed:
                raise ValueError("write to closed file")
            if len(self.ubuf) + len(data) <= BUFSZ:
                self.ubuf += data
                return len(data)
            if self.ubuf:
                d = bytes(self.ubuf)
                del self.ubuf[:]
                self._raw(d)
            if self.nonblocking:
                # BufferedWriter.write over short raw writes: write through while more than a buffer-full
                # remains, keep the tail in the buffer
                rest = memoryview(bytes(data))
                while len(rest) > BUFSZ:
                    n = self._raw_short(rest)
                    rest = rest[n:]
                    if len(rest) > BUFSZ:
                        s.switch("w-part", self.pipe.name)
                self.ubuf += rest
                if len(rest):
                    s.probe("nonblocking-writer-kept-a-tail-in-its-buffer")
                return len(data)
            self._raw(bytes(data))
            return len(data)
        finally:
            self.lock.release()

    def flush(self):
        self.s.switch("fl", self.pipe.name)
        self.lock.acquire()
        try:
            if self.closed:
                raise ValueError("flush of closed file")
            if self.ubuf:
                d = bytes(self.ubuf)
                del self.ubuf[:]
                self._raw(d)
        finally:
            self.lock.release()

    def close(self):
        if self.closed:
            return
        self.s.switch("wclose", self.pipe.name)
        self.lock.acquire()
        try:
            if self.closed:
                return
            try:
                if self.ubuf:
                    d = bytes(self.ubuf)
                    del self.ubuf[:]
                    self._raw(d)
            finally:
                self.closed = True
                self.pipe.w_open = False
        finally:
            self.lock.release()

    def kernel_close(self):
        """Process death: user-space buffer is lost, the fd closes."""
        self.closed = True
        del self.ubuf[:]
        self.pipe.w_open = False

    def fileno(self):
        return self.pipe.world.devnull_fd()


class RawWFile(WFile):
    """Write end of a pipe opened unbuffered (io.FileIO): write() is a single write(2).  No user-space buffer, no
    lock: the kernel makes writes of up to PIPE_BUF bytes atomic, a larger blocking write goes out in pieces as room
    becomes available and other writers of the same pipe may get in between."""

    PIPE_BUF = 4096

    def write(self, data):
        s = self.s
        s.switch("w", self.pipe.name)
        if self.closed:
            raise ValueError("write to closed file")
        data = bytes(data)
        p = self.pipe
        if len(data) <= self.PIPE_BUF and p.cap >= len(data):
            while p.r_open and p.space() < len(data):
                s.probe("write-blocked-on-full-pipe")
                s.block(lambda: (not p.r_open) or p.space() >= len(data), None, "pipe-full", p.name)
        self._raw(data)
        return len(data)

    def flush(self):
        self.s.switch("fl", self.pipe.name)
        if self.closed:
            raise ValueError("flush of closed file")


class RFile:
    """Read end.  read(n) returns between 1 and n bytes (or b'' at EOF)."""

    def __init__(self, pipe, owner):
        self.pipe = pipe
        self.s = pipe.s
        self.owner = owner
        self.closed = False
        if owner is not None:
            owner.fds.append(self)

    def _wait_data(self):
        p = self.pipe
        if not p.buf and p.w_open:
            self.s.block(lambda: bool(p.buf) or not p.w_open or self.closed, None, "pipe-empty", p.name)

    def read(self, n=-1):
        s = self.s
        p = self.pipe
        s.switch("r", p.name)
        if self.closed:
            raise ValueError("read of closed file")
        if n is None or n < 0:
            out = b""
            while True:
                self._wait_data()
                if not p.buf:
                    return out
                out += p.pop(len(p.buf))
        if n == 0:
            return b""
        self._wait_data()
        if self.closed:
            raise ValueError("read of closed file")
        if not p.buf:
            return b""
        m = min(n, len(p.buf))
        k = self.pipe.world.chunk(m, n)
        if k < n:
            s.probe("short-read")
        return p.pop(k)

    def readline(self):
        """Used by the bootstrap stub only (never over-consumes)."""
        p = self.pipe
        out = bytearray()
        while True:
            self.s.switch("rl", p.name)
            self._wait_data()
            if not p.buf:
                return bytes(out)
            i = p.buf.find(b"\n")
            if i >= 0:
                out += p.pop(i + 1)
                return bytes(out)
            out += p.pop(len(p.buf))

    def close(self):
        if self.closed:
            return
        self.s.switch("rclose", self.pipe.name)
        self.closed = True
        self.pipe.r_open = False
        del self.pipe.buf[:]

    def kernel_close(self):
        self.closed = True
        self.pipe.r_open = False

    def fileno(self):
        return self.pipe.world.devnull_fd()


# ---------------------------------------------------------------------------
# sockets
# ---------------------------------------------------------------------------


class gaierror(OSError):
    pass


class SimSocket:
    def __init__(self, mod, proc):
        self.mod = mod
        self.world = mod.world
        self.s = mod.world.sched
        self.proc = proc
        self.state = "new"
        self.addr = None
        self.backlog = []
        self.rx = None  # Pipe we read from
        self.tx = None  # Pipe we write to
        self.rd_shut = False
        self.wr_shut = False
        self.label = self.s.label("sock")
        if proc is not None:
            proc.fds.append(self)

    # -- setup ----------------------------------------------------------
    def setsockopt(self, *a):
        return None

    def fileno(self):
        return self.world.devnull_fd()

    def bind(self, addr):
        host, port = addr
        if port == 0:
            port = self.world.alloc_port()
        self.addr = (host or "0.0.0.0", port)
        if port in self.world.listeners:
            raise OSError(98, "Address already in use")

    def listen(self, n=5):
        self.state = "listening"
        self.world.listeners[self.addr[1]] = self

    def getsockname(self):
        return self.addr if self.addr else ("0.0.0.0", 0)

    def accept(self):
        self.s.switch("accept", self.label)
        self.s.block(lambda: bool(self.backlog) or self.state == "closed", None, "accept", self.label)
        if self.state == "closed":
            raise OSError(9, "Bad file descriptor")
        conn, peeraddr = self.backlog.pop(0)
        return conn, peeraddr

    def connect(self, addr):
        self.s.switch("connect", self.label)
        host, port = addr
        if host == "nohost.invalid":
            raise gaierror(-2, "Name or service not known")
        lst = self.world.listeners.get(port)
        if lst is None or lst.state != "listening" or (lst.proc is not None and not lst.proc.alive):
            raise ConnectionRefusedError(111, "Connection refused")
        cap = self.world.knobs.get("sock_cap", 65536)
        n = self.s.label("conn")
        a2b = Pipe(self.world, cap, f"{n}.c2s")
        b2a = Pipe(self.world, cap, f"{n}.s2c")
        srv = SimSocket(self.mod_for(lst.proc), lst.proc)
        srv.state = "connected"
        srv.rx, srv.tx = a2b, b2a
        srv.addr = lst.addr
        self.state = "connected"
        self.rx, self.tx = b2a, a2b
        self.addr = ("127.0.0.1", self.world.alloc_port())
        lst.backlog.append((srv, self.addr))
        self.world.connections.append((n, self, srv))

    def mod_for(self, proc):
        return self.world.socket_module(proc)

    # -- data -----------------------------------------------------------
    def send(self, data):
        s = self.s
        s.switch("send", self.label)
        return self._send(data)

    def _send(self, data):
        s = self.s
        p = self.tx
        if self.state != "connected" or self.wr_shut:
            raise BrokenPipeError(32, "Broken pipe")
        while True:
            if not p.r_open:
                raise BrokenPipeError(32, "Broken pipe")
            space = p.space()
            if p.discard:
                space = len(data)
            if space > 0:
                break
            s.probe("send-blocked-on-full-socket")
            s.block(lambda: (not p.r_open) or p.space() > 0 or p.discard, None, "sock-full", p.name)
        k = min(space, len(data))
        got = p.push(bytes(data[:k]))
        return got

    def sendall(self, data):
        s = self.s
        s.switch("sendall", self.label)
        mv = memoryview(data)
        off = 0
        n = len(mv)
        while off < n:
            got = self._send(mv[off:])
            off += got
            if off < n:
                s.probe("sendall-partial")
                s.switch("sendall-part", self.label)

    def recv(self, n):
        s = self.s
        p = self.rx
        s.switch("recv", self.label)
        if self.state != "connected":
            raise OSError(107, "Transport endpoint is not connected")
        if self.rd_shut:
            return b""
        if not p.buf and p.w_open:
            s.block(lambda: bool(p.buf) or not p.w_open or self.rd_shut or self.state == "closed",
                    None, "sock-empty", p.name)
        if self.rd_shut or not p.buf:
            return b""
        m = min(n, len(p.buf))
        k = self.world.chunk(m, n)
        if k < n:
            s.probe("short-read")
        return p.pop(k)

    def recv_into(self, buffer, nbytes=0, flags=0):
        mv = memoryview(buffer)
        n = len(mv) if not nbytes else min(nbytes, len(mv))
        data = self.recv(n)
        mv[:len(data)] = data
        return len(data)

    def settimeout(self, t):
        if t is not None:
            raise HarnessError("SimSocket: socket timeouts are not simulated")

    def setblocking(self, flag):
        if not flag:
            raise HarnessError("SimSocket: non-blocking sockets are not simulated")

    def __getattr__(self, name):
        # an API of real sockets that the simulator does not model: machinery trouble, never a finding
        raise HarnessError(f"SimSocket has no {name!r} (socket API not simulated)")

    def shutdown(self, how):
        self.s.switch("shutdown", self.label)
        if self.state == "listening":
            if how in (0, 2):
                self.state = "closed"
                self.world.listeners.pop(self.addr[1], None)
            return
        if self.state != "connected":
            raise OSError(107, "Transport endpoint is not connected")
        if how in (0, 2):
            self.rd_shut = True
            self.rx.discard = True
            del self.rx.buf[:]
        if how in (1, 2):
            self.wr_shut = True
            self.tx.w_open = False

    def close(self):
        self.s.switch("sclose", self.label)
        self.kernel_close()

    def kernel_close(self):
        if self.state == "listening":
            self.world.listeners.pop(self.addr[1], None)
        if self.state == "connected":
            self.tx.w_open = False
            self.rx.r_open = False
            self.wr_shut = True
            self.rd_shut = True
        self.state = "closed"

    def makefile(self, mode="rb", *a, **k):
        if "r" not in mode:
            raise HarnessError("SimSocket.makefile: only read mode is simulated")
        return _SockFile(self)


class _SockFile:
    def __init__(self, sock):
        self.sock = sock

    def readline(self):
        # buffered line read that never over-consumes (the client sends exactly one line and
        # then waits for the bootstrap byte, so a real buffered reader sees the same bytes)
        sk = self.sock
        s = sk.s
        p = sk.rx
        out = bytearray()
        while True:
            s.switch("rl", p.name)
            if not p.buf and p.w_open and not sk.rd_shut:
                s.block(lambda: bool(p.buf) or not p.w_open or sk.rd_shut, None, "sock-empty", p.name)
            if sk.rd_shut or not p.buf:
                return bytes(out)
            i = p.buf.find(b"\n")
            if i >= 0:
                out += p.pop(i + 1)
                return bytes(out)
            out += p.pop(len(p.buf))

    def close(self):
        pass


class SocketModule:
    AF_INET = 2
    SOCK_STREAM = 1
    SOL_IP = 0
    IP_TOS = 1
    SOL_TCP = 6
    TCP_NODELAY = 1
    SOL_SOCKET = 1
    SO_REUSEADDR = 2
    SHUT_RD, SHUT_WR, SHUT_RDWR = 0, 1, 2
    error = OSError
    gaierror = gaierror

    def __init__(self, world, proc):
        self.world = world
        self.proc = proc

    def socket(self, *a, **k):
        return SimSocket(self, self.proc)
