"""Line-granularity preemption points via sys.monitoring (PEP 669), restricted to code objects
of the tree under test (imported execnet modules and the exec'd shipped copy)."""

from __future__ import annotations

import _thread
import sys
import types

from . import boot

TOOL = 3
_mon = sys.monitoring


class LineMonitor:
    def __init__(self):
        self.sched = None
        self.codes = {}
        self.installed = False
        self.active = False

    def install(self):
        if self.installed:
            return
        try:
            _mon.use_tool_id(TOOL, "vsim")
        except ValueError:
            pass
        self.installed = True
        boot.MONITOR = self

    def register_code(self, co):
        # by identity: code objects compare by value, and an equal but distinct object (the same statement
        # compiled again for another shipped source) needs its own registration
        if id(co) in self.codes:
            return
        self.codes[id(co)] = co
        _mon.set_local_events(TOOL, co, _mon.events.LINE)
        for c in co.co_consts:
            if isinstance(c, types.CodeType):
                self.register_code(c)

    def register_module(self, mod):
        seen = set()

        def visit(obj):
            if id(obj) in seen:
                return
            seen.add(id(obj))
            if isinstance(obj, types.FunctionType):
                if obj.__code__.co_filename == getattr(mod, "__file__", None):
                    self.register_code(obj.__code__)
            elif isinstance(obj, (staticmethod, classmethod)):
                visit(obj.__func__)
            elif isinstance(obj, property):
                for f in (obj.fget, obj.fset, obj.fdel):
                    if f is not None:
                        visit(f)
            elif isinstance(obj, type):
                if getattr(obj, "__module__", None) == mod.__name__:
                    for v in list(vars(obj).values()):
                        visit(v)

        for v in list(vars(mod).values()):
            visit(v)

    def activate(self, sched):
        self.sched = sched
        if not self.active:
            _mon.register_callback(TOOL, _mon.events.LINE, self.on_line)
            self.active = True

    def deactivate(self):
        self.sched = None
        if self.active:
            _mon.register_callback(TOOL, _mon.events.LINE, None)
            self.active = False

    def on_line(self, code, lineno):
        s = self.sched
        if s is None:
            return
        plan = s.preempt_plan
        targets = s.preempt_targets
        if plan is None and targets is None:
            return
        cur = s.current
        if cur is None or cur.thread.ident != _thread.get_ident() or cur.notrace:
            return
        s.line_events += 1
        if s.keep_log:
            s.line_log.append((code.co_name, lineno))
        hit = plan is not None and s.line_events in plan
        if targets is not None:
            st = targets.get(code.co_name)
            if st is not None:
                c = s.site_counts.get(code.co_name, 0) + 1
                s.site_counts[code.co_name] = c
                if c in st:
                    hit = True
                    s.probe("preempt-targeted")
        if hit:
            s.probe("preempt-fired")
            s.preempt_sites.append(f"{code.co_name}:{lineno}")
            s.switch("preempt", f"{code.co_name}:{lineno}", force_other=True)


MON = LineMonitor()


def setup(mods):
    MON.install()
    for k in ("gb", "gw", "gboot", "gio", "gsock", "multi", "rsync", "xspec"):
        MON.register_module(mods[k])
    # the channel table is a weakref.WeakValueDictionary whose methods are Python code: iterating it while another
    # thread pops from it is a real interleaving, so its methods are preemptable too (it takes no real lock)
    import weakref
    for nm in ("values", "itervaluerefs", "valuerefs", "keys", "items", "__iter__", "get", "pop", "__getitem__",
               "__setitem__", "__len__", "__contains__", "copy"):
        f = weakref.WeakValueDictionary.__dict__.get(nm)
        if f is not None and hasattr(f, "__code__"):
            MON.register_code(f.__code__)
    return MON
