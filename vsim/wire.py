"""Independent parser for execnet's wire format (9-byte '!bii' header + payload), used as ground
truth for what was written to a connection.  Knows nothing about execnet's code."""

from __future__ import annotations

import re
import struct

STATUS, RECONFIGURE, GATEWAY_TERMINATE, CHANNEL_EXEC, CHANNEL_DATA, CHANNEL_CLOSE, \
    CHANNEL_CLOSE_ERROR, CHANNEL_LAST_MESSAGE = range(8)

NAMES = ["STATUS", "RECONFIGURE", "GATEWAY_TERMINATE", "CHANNEL_EXEC", "CHANNEL_DATA", "CHANNEL_CLOSE",
         "CHANNEL_CLOSE_ERROR", "CHANNEL_LAST_MESSAGE"]

TOKEN_RE = re.compile(rb"#IT:([^#]{1,80})#")


def skip_bootstrap(data, direction):
    """Offset where frames start.  to-worker: after the first newline (the repr'd source line);
    from-worker: after the single bootstrap byte b'1'."""
    if direction == "to_worker":
        i = data.find(b"\n")
        return len(data) if i < 0 else i + 1
    return 1 if data[:1] == b"1" else 0


def parse_frames(data, start=0, limit=None):
    """-> (frames, end_offset_of_last_complete_frame, garbage)
    frames: list of (offset, msgcode, channelid, payload bytes)."""
    out = []
    off = start
    n = len(data) if limit is None else min(limit, len(data))
    bad = None
    while off + 9 <= n:
        code, chan, ln = struct.unpack_from("!bii", data, off)
        if ln < 0 or code < 0 or code > 7:
            bad = (off, code, chan, ln)
            break
        if off + 9 + ln > n:
            break
        out.append((off, code, chan, bytes(data[off + 9:off + 9 + ln])))
        off += 9 + ln
    return out, off, bad


def tokens_of(payload):
    return [m.group(1).decode("utf-8", "replace") for m in TOKEN_RE.finditer(payload)]


def data_tokens_by_channel(frames):
    """channel id -> ordered list of first item tokens of CHANNEL_DATA frames."""
    out = {}
    for off, code, chan, payload in frames:
        if code == CHANNEL_DATA:
            t = tokens_of(payload)
            out.setdefault(chan, []).append(t[0] if t else None)
    return out
