"""World: one simulated machine (process table, pipes, sockets, clock) for one run."""

from __future__ import annotations

import atexit
import gc
import os
import sys

from . import procs as _procs
from .execmodel import make_execmodel
from .kernel import Chooser, HarnessError, Sched
from .prims import SimLock, SimQueue
from .procs import SIGCONT, SIGINT, SIGKILL, SIGSTOP, SIGTERM, SimProcess, SubprocessModule
from .sio import SocketModule

_devnull_fd = None
_loaded = {}


def load_execnet(src=None):
    """Import execnet from the tree under test (VERIF_EXECNET_SRC, default /repo/src)."""
    src = src or os.environ.get("VERIF_EXECNET_SRC", "/repo/src")
    src = os.path.realpath(src)
    if "mods" in _loaded:
        if _loaded["src"] != src:
            raise HarnessError("execnet already loaded from another tree")
        return _loaded["mods"]
    sys.dont_write_bytecode = True
    if src not in sys.path:
        sys.path.insert(0, src)
    # before the import: gateway_base binds `from _thread import interrupt_main` at import time
    _procs.install_os_wrappers()
    import execnet
    import execnet.gateway_base as gb
    import execnet.gateway as gw
    import execnet.gateway_bootstrap as gboot
    import execnet.gateway_io as gio
    import execnet.gateway_socket as gsock
    import execnet.multi as multi
    import execnet.rsync as rsync
    import execnet.rsync_remote as rsync_remote
    import execnet.xspec as xspec
    from execnet.script import socketserver as sockserv

    if not os.path.realpath(execnet.__file__).startswith(src + os.sep):
        raise HarnessError(f"execnet imported from {execnet.__file__}, not from {src}")
    # the default group registered an atexit hook with real threads; never needed here
    try:
        atexit.unregister(multi.default_group._cleanup_atexit)
    except Exception:
        pass
    mods = {
        "execnet": execnet, "gb": gb, "gw": gw, "gboot": gboot, "gio": gio, "gsock": gsock,
        "multi": multi, "rsync": rsync, "rsync_remote": rsync_remote, "xspec": xspec,
        "sockserv": sockserv, "src": src,
    }
    _loaded["mods"] = mods
    _loaded["src"] = src
    _procs.install_os_wrappers()
    gc.disable()
    # always install the line monitor (inactive unless a run has a preemption plan), so that every code
    # object compiled by the bootstrap stub is registered no matter which run compiled it first
    from . import trace
    trace.setup(mods)
    return mods


class Sink:
    def __init__(self):
        self.lines = []

    def write(self, s):
        if len(self.lines) < 2000:
            self.lines.append(s)
        return len(s)

    def flush(self):
        pass

    def isatty(self):
        return False


class World:
    def __init__(self, chooser=None, knobs=None, strategy=None, max_steps=200_000,
                 max_time=3600.0, keep_log=False):
        self.mods = load_execnet()
        self.gb = self.mods["gb"]
        # finalize whatever earlier runs in this OS process left behind (cycles through Task/Thread,
        # channels, gateways) *before* this run starts, so that no Channel.__del__ of a previous world
        # executes inside this one (it would shift the line-event count and hence the preemption points)
        hook = sys.unraisablehook
        err = sys.stderr
        sys.unraisablehook = lambda *a: None
        sys.stderr = Sink()
        try:
            gc.collect()
        finally:
            sys.unraisablehook = hook
            sys.stderr = err
        self.knobs = dict(knobs or {})
        self.chooser = chooser or Chooser(replay=[])
        self.sched = Sched(self.chooser, strategy, max_steps=max_steps, max_time=max_time,
                           keep_log=keep_log)
        self.procs = []
        self.pipes = []
        self.popens = []
        self.listeners = {}
        self.connections = []
        self.stderr = Sink()
        self.stdout = Sink()
        self._pid = 1000
        self._port = 40000
        self._em = {}
        self._submods = {}
        self._sockmods = {}
        self.groups = []
        self.chunk_policy = self.knobs.get("chunk", "greedy")
        self.proc_names = {}
        self.hist = []  # harness histories (plain data only)
        self.listdir_seed = self.knobs.get("listdir_seed")
        self.cleanup = []  # callables run at the end of run(), before hooks are restored
        # process-global caches of the tree under test that would make the first run differ
        try:
            self.gb._Serializer._dispatch.clear()
        except AttributeError:
            pass

    # ---- allocation ---------------------------------------------------
    def alloc_pid(self):
        self._pid += 1
        return self._pid

    def alloc_port(self):
        self._port += 1
        return self._port

    def devnull_fd(self):
        global _devnull_fd
        if _devnull_fd is None:
            _devnull_fd = os.open(os.devnull, os.O_RDWR)
        return _devnull_fd

    def name_process(self, proc, args):
        n = self.proc_names.get("w", 0) + 1
        self.proc_names["w"] = n
        proc.name = f"w{n}"

    def proc_by_pid(self, pid):
        for p in self.procs:
            if p.pid == pid:
                return p
        return None

    # ---- seams --------------------------------------------------------
    def execmodel_for(self, proc, backend, abc=False):
        key = (proc.pid if proc else None, backend, abc)
        em = self._em.get(key)
        if em is None:
            em = make_execmodel(self, proc, backend, self.gb.ExecModel if abc else None)
            self._em[key] = em
        return em

    def subprocess_module(self, proc):
        m = self._submods.get(proc)
        if m is None:
            m = self._submods[proc] = SubprocessModule(self, proc)
        return m

    def socket_module(self, proc):
        m = self._sockmods.get(proc)
        if m is None:
            m = self._sockmods[proc] = SocketModule(self, proc)
        return m

    def chunk(self, m, n=None):
        """How many of m available bytes a low-level read returns (index 0 = all).
        `n` is the number of bytes the caller asked for."""
        if m <= 1:
            return m
        pol = self.chunk_policy
        if pol == "greedy":
            return m
        if pol == "one":
            # 1-byte reads for headers and small payloads; bulk transfers (bootstrap source,
            # shipped modules) would cost >100k sync points per run otherwise
            if n is not None and n > 192:
                return m
            return 1
        # random: mostly greedy-ish with occasional tiny reads
        c = self.chooser
        if m > 16:
            i = c.choose(4)
            if i == 0:
                return m
            if i == 1:
                return 1
            if i == 2:
                return m - 1
            return max(1, m // 2)
        return m - c.choose(m)

    # ---- processes ------------------------------------------------------
    def new_process(self, name, main_fn, args=(), parent=None):
        p = SimProcess(self, name, parent)
        p.name = name
        self.sched.spawn(main_fn, args, name=f"main:{name}", proc=p, is_main=True)
        return p

    def spawn_task(self, proc, fn, args=(), name="user"):
        return self.sched.spawn(fn, args, name=name, proc=proc)

    def signal(self, proc, sig, by=None):
        s = self.sched
        s.probe(f"signal:{sig}")
        if not proc.alive:
            return
        if sig == SIGKILL:
            proc.exit(-9)
        elif sig == SIGTERM:
            if getattr(proc, "ignore_term", False):
                s.probe("sigterm-ignored")
            elif proc.stopped:
                # only SIGKILL and SIGCONT act on a stopped process; everything else stays pending
                proc.pending_term = True
                s.probe("sigterm-pending-on-stopped-process")
            else:
                proc.exit(-15)
        elif sig == SIGSTOP:
            proc.stopped = True
        elif sig == SIGCONT:
            proc.stopped = False
            if getattr(proc, "pending_term", False):
                proc.pending_term = False
                proc.exit(-15)
        elif sig == SIGINT:
            mt = proc.main_task
            if mt is not None and mt.state != "done":
                mt.pending_exc = KeyboardInterrupt()
                s.probe("sigint-delivered")
        else:
            raise HarnessError(f"signal {sig} not simulated")

    # ---- groups (initiator side) --------------------------------------------
    def make_group(self, proc, backend="thread"):
        multi = self.mods["multi"]
        em = self.execmodel_for(proc, backend, abc=True)
        g = multi.Group(execmodel=em)
        atexit.unregister(g._cleanup_atexit)
        self.groups.append(g)
        return g

    def _find_spinner(self):
        """At the step cap: is the task that was running last inside code of the tree under test?
        -> (innermost function of the tree under test, task name, process name, file:line) or None"""
        t = self.sched.current
        if t is None or t.thread is None:
            return None
        fr = sys._current_frames().get(t.thread.ident)
        src = self.mods["src"]
        while fr is not None:
            fn = fr.f_code.co_filename
            if fn.startswith(src) or fn == "<string>":
                return (fr.f_code.co_name, t.name, t.proc.name if t.proc else None, f"{os.path.basename(fn)}:{fr.f_lineno}")
            fr = fr.f_back
        return None

    # ---- run ------------------------------------------------------------
    def run(self, wall_timeout=120.0):
        multi = self.mods["multi"]
        rsync = self.mods["rsync"]
        saved = (multi.Lock, rsync.Queue, sys.stderr, sys.unraisablehook, sys.stdout)
        multi.Lock = lambda: SimLock(self.sched)
        rsync.Queue = lambda: SimQueue(self.sched)
        sys.stderr = self.stderr
        sys.stdout = self.stdout
        sys.unraisablehook = lambda *a: None
        _procs.WORLD = self
        leaked = 0
        mon = None
        if self.sched.preempt_plan or self.sched.preempt_targets:
            from . import trace
            mon = trace.setup(self.mods)
            mon.activate(self.sched)
        self.blocked_snapshot = []
        self.spinning = None
        try:
            reason = self.sched.run(wall_timeout)
            # who is still inside an API call now that nothing can happen any more?  (must be looked at
            # before the task threads are unwound: unwinding clears the per-task op markers)
            if reason == "step-cap":
                self.spinning = self._find_spinner()
            for t in self.sched.tasks:
                if t.op is not None and t.state != "done" and (t.proc is None or t.proc.alive):
                    self.blocked_snapshot.append((t.op, t.blocked_label, t.proc.name if t.proc else None))
        finally:
            try:
                if mon is not None:
                    mon.deactivate()
                leaked = self.sched.shutdown()
            finally:
                _procs.WORLD = None
                multi.Lock, rsync.Queue = saved[0], saved[1]
                self.groups = []
                self._em.clear()
                for fn in self.cleanup:
                    try:
                        fn()
                    except Exception:  # noqa: BLE001
                        pass
                # typing keeps every @overload-decorated function in a process-global registry; the shipped
                # copy of gateway_base defines some, and their __globals__ would keep this whole world alive
                # until the *next* run re-defines them (and then finalize it in the middle of that run)
                try:
                    import typing
                    typing.clear_overloads()
                except Exception:  # noqa: BLE001
                    pass
                gc.collect()
                sys.stderr = saved[2]
                sys.stdout = saved[4]
                sys.unraisablehook = saved[3]
        self.leaked = leaked
        return reason
